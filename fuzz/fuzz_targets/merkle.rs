#![no_main]
//! E8 target for C27: bytes -> native Merkle proof; verify() == verify_with_positions() ==
//! reference predicate with its own fold (plonky2 Poseidon2 over the position-inserted limbs).
use arbitrary::Unstructured;
use libfuzzer_sys::fuzz_target;
use plonky2::field::types::{Field, PrimeField64};
use plonky2::hash::poseidon2::Poseidon2Hash;
use plonky2::plonk::config::Hasher;
use zk_circuits_common::circuit::F;
use zk_circuits_common::zk_merkle::ZkMerkleProof;

const P: u64 = 0xFFFF_FFFF_0000_0001;
fn limbs(h: &[u8; 32]) -> [u64; 4] { core::array::from_fn(|i| u64::from_le_bytes(h[i * 8..i * 8 + 8].try_into().unwrap())) }
fn canonical(h: &[u8; 32]) -> bool { limbs(h).iter().all(|l| *l < P) }
fn node(c: &[[u8; 32]; 4]) -> [u8; 32] {
    let fs: Vec<F> = c.iter().flat_map(|h| limbs(h)).map(F::from_canonical_u64).collect();
    let o = Poseidon2Hash::hash_no_pad(&fs);
    let mut out = [0u8; 32];
    for i in 0..4 { out[i * 8..i * 8 + 8].copy_from_slice(&o.elements[i].to_canonical_u64().to_le_bytes()); }
    out
}
fn hash32(u: &mut Unstructured) -> [u8; 32] {
    let mut h: [u8; 32] = u.arbitrary().unwrap_or([0; 32]);
    // mostly canonical limbs
    if u.ratio(7, 8).unwrap_or(true) { for i in 0..4 { let l = u64::from_le_bytes(h[i * 8..i * 8 + 8].try_into().unwrap()) % P; h[i * 8..i * 8 + 8].copy_from_slice(&l.to_le_bytes()); } }
    h
}

fuzz_target!(|data: &[u8]| {
    let mut u = Unstructured::new(data);
    let depth: usize = u.int_in_range(0..=18u8).unwrap_or(0) as usize;
    let leaf = hash32(&mut u);
    let sibs: Vec<[[u8; 32]; 3]> = (0..depth).map(|_| [hash32(&mut u), hash32(&mut u), hash32(&mut u)]).collect();
    let mut pos: Vec<u8> = (0..depth).map(|_| { let p: u8 = u.arbitrary().unwrap_or(0); if p < 240 { p % 4 } else { p } }).collect();
    if u.ratio(1, 16).unwrap_or(false) { pos.pop(); }
    // root: the reference fold when possible (valid proofs are the interesting half), else arbitrary
    let foldable = depth <= 16 && pos.len() == depth && canonical(&leaf) && sibs.iter().flatten().all(canonical) && pos.iter().all(|p| *p <= 3);
    let mut cur = leaf;
    if foldable {
        for (s, p) in sibs.iter().zip(pos.iter()) {
            let four = match p { 0 => [cur, s[0], s[1], s[2]], 1 => [s[0], cur, s[1], s[2]], 2 => [s[0], s[1], cur, s[2]], _ => [s[0], s[1], s[2], cur] };
            cur = node(&four);
        }
    }
    let root = if foldable && u.ratio(3, 4).unwrap_or(true) { cur } else { hash32(&mut u) };
    let want = foldable && root == cur;
    let proof = ZkMerkleProof::new(0, sibs, pos, leaf, root);
    assert_eq!(proof.verify(), want, "verify vs reference predicate (depth {})", depth);
    assert_eq!(proof.verify_with_positions(), want);
});
