#![no_main]
//! E8 target for C24: bytes -> (layout, declared counts, u64 vector); the reference
//! well-formedness predicate / decoder is evaluated in-target and any disagreement panics.
use arbitrary::Unstructured;
use libfuzzer_sys::fuzz_target;
use plonky2::field::types::Field;
use qp_wormhole_inputs::{PrivateBatchPublicInputs, PublicBatchPublicInputs, PublicCircuitInputs};
use wormhole_circuit::inputs::{ParsePrivateBatchPublicInputs, ParsePublicInputs};
use zk_circuits_common::circuit::F;

const P: u64 = 0xFFFF_FFFF_0000_0001;
const EDGE: [u64; 10] = [0, 1, 0xFFFF_FFFF, 1 << 32, (1 << 32) + 1, P - 1, P, P + 1, u64::MAX, 1 << 63];

fn u32_ok(x: u64) -> bool { x <= u32::MAX as u64 }
fn dig_ok(v: &[u64]) -> bool { v.iter().all(|x| *x < P) }

fn ref_leaf(v: &[u64]) -> bool {
    v.len() == 21 && [0usize, 1, 2, 3, 20].iter().all(|i| u32_ok(v[*i])) && dig_ok(&v[4..20])
}
fn ref_priv(v: &[u64]) -> bool {
    if v.len() < 8 || (v.len() - 8) % 21 != 0 { return false; }
    let n = (v.len() - 8) / 21;
    if !(1..=64).contains(&n) { return false; }
    if v[0] != 2 * n as u64 || !u32_ok(v[1]) || !u32_ok(v[2]) || !u32_ok(v[7]) || !dig_ok(&v[3..7]) { return false; }
    for s in 0..2 * n { let b = 8 + 5 * s; if !u32_ok(v[b]) || !dig_ok(&v[b + 1..b + 5]) { return false; } }
    dig_ok(&v[8 + 10 * n..8 + 14 * n])
}
fn ref_pub(v: &[u64], m: usize, n: usize) -> bool {
    if !(1..=64).contains(&m) || !(1..=64).contains(&n) || v.len() != 12 + 14 * m * n { return false; }
    if !dig_ok(&v[0..4]) || !u32_ok(v[4]) || !u32_ok(v[5]) || !dig_ok(&v[6..10]) || !u32_ok(v[10]) || v[11] != (2 * m * n) as u64 { return false; }
    for s in 0..2 * m * n { let b = 12 + 5 * s; if !u32_ok(v[b]) || !dig_ok(&v[b + 1..b + 5]) { return false; } }
    dig_ok(&v[12 + 10 * m * n..])
}

fuzz_target!(|data: &[u8]| {
    let mut u = Unstructured::new(data);
    let layout: u8 = u.int_in_range(0..=2).unwrap_or(0);
    let m: usize = match u.int_in_range(0..=9u8).unwrap_or(1) { 0 => 0, 8 => 65, 9 => usize::MAX, k => k as usize };
    let n: usize = match u.int_in_range(0..=9u8).unwrap_or(1) { 0 => 0, 8 => 65, 9 => 1 << 32, k => k as usize };
    // vector: mostly values drawn from an edge table, sometimes raw u64s; the length follows the
    // remaining input so that the fuzzer controls it
    let mut v: Vec<u64> = vec![];
    while !u.is_empty() && v.len() < 1400 {
        let tag: u8 = u.arbitrary().unwrap_or(0);
        let x = if tag < 160 { EDGE[(tag as usize) % EDGE.len()] } else if tag < 220 { (tag as u64) & 0x7f } else { u.arbitrary().unwrap_or(0) };
        v.push(x);
    }
    // make the structural constant right most of the time, so that the deep field checks are reached
    if let Some(k) = u.int_in_range(0..=3u8).ok() {
        if k > 0 && !v.is_empty() {
            match layout { 1 => { if v.len() >= 8 && (v.len() - 8) % 21 == 0 { v[0] = 2 * ((v.len() - 8) / 21) as u64; } } 2 => { if v.len() > 11 { v[11] = (2 * m.min(64) * n.min(64)) as u64; } } _ => {} }
        }
    }
    let canon: Vec<u64> = v.iter().map(|x| if *x >= P { *x - P } else { *x }).collect();
    let felts: Vec<F> = v.iter().map(|x| F::from_noncanonical_u64(*x)).collect();
    match layout {
        0 => {
            assert_eq!(PublicCircuitInputs::try_from_u64_slice(&v).is_ok(), ref_leaf(&v), "leaf u64 parser vs reference on {:?}", v);
            let f = <PublicCircuitInputs as ParsePublicInputs>::try_from_felts(&felts);
            assert_eq!(f.is_ok(), ref_leaf(&canon), "leaf felt parser vs reference");
            if let (Ok(a), Ok(b)) = (PublicCircuitInputs::try_from_u64_slice(&canon), f) { assert_eq!(a, b); }
        }
        1 => {
            let a = PrivateBatchPublicInputs::try_from_u64_slice(&v);
            assert_eq!(a.is_ok(), ref_priv(&v), "private u64 parser vs reference (len {})", v.len());
            let b = <PrivateBatchPublicInputs as ParsePrivateBatchPublicInputs>::try_from_felts(&felts);
            let c = PrivateBatchPublicInputs::try_from_u64_slice(&canon);
            assert_eq!(b.is_ok(), c.is_ok(), "u64 and felt private-batch parsers disagree (len {})", v.len());
            if let (Ok(x), Ok(y)) = (b, c) { assert_eq!(x, y); }
        }
        _ => {
            assert_eq!(PublicBatchPublicInputs::try_from_u64_slice(&v, m, n).is_ok(), ref_pub(&v, m, n), "public parser vs reference (m={}, n={}, len {})", m, n, v.len());
        }
    }
});
