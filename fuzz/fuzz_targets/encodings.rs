#![no_main]
//! E8 target for C25/C26: round trips, decode-accepts-only-images, digest canonicality, compact hash domain.
use libfuzzer_sys::fuzz_target;
use plonky2::field::types::{Field, PrimeField64};
use zk_circuits_common::circuit::F;
use zk_circuits_common::serialization as ser;
use zk_circuits_common::utils::BytesDigest;

const P: u64 = 0xFFFF_FFFF_0000_0001;

fuzz_target!(|data: &[u8]| {
    // (1) byte round trip
    let enc = ser::bytes_to_felts(data).expect("in-bounds input must encode");
    assert_eq!(ser::felts_to_bytes(&enc).expect("image must decode"), data, "round trip");
    // (2) arbitrary felt vector: accepted => image
    let v: Vec<F> = data.chunks(5).map(|c| { let mut w = [0u8; 8]; w[..c.len()].copy_from_slice(c); F::from_noncanonical_u64(u64::from_le_bytes(w)) }).collect();
    if let Ok(b) = ser::felts_to_bytes(&v) {
        let back = ser::bytes_to_felts(&b).expect("decoded bytes re-encode");
        assert_eq!(back.iter().map(|f| f.to_canonical_u64()).collect::<Vec<_>>(), v.iter().map(|f| f.to_canonical_u64()).collect::<Vec<_>>(), "decode accepted a non-image");
    }
    // (3) digests
    if data.len() >= 32 {
        let mut d = [0u8; 32];
        d.copy_from_slice(&data[..32]);
        let canonical = d.chunks(8).all(|c| u64::from_le_bytes(c.try_into().unwrap()) < P);
        assert_eq!(BytesDigest::try_from(d).is_ok(), canonical, "digest acceptance");
        assert_eq!(wormhole_circuit::sensitive::Secret::try_from(d).is_ok(), canonical, "secret acceptance");
        if canonical { assert_eq!(ser::digest_to_bytes(&ser::bytes_to_digest(&d)), d); }
    }
    // (4) compact hash domain
    let ok = data.len() % 8 == 0 && data.chunks(8).all(|c| u64::from_le_bytes(c.try_into().unwrap()) < P);
    assert_eq!(ser::verif_hash_bytes_compact(data).is_ok(), ok, "compact hash domain (len {})", data.len());
    // (5) integer limbs
    if data.len() >= 16 {
        let a = u64::from_le_bytes(data[..8].try_into().unwrap());
        let b = u64::from_le_bytes(data[8..16].try_into().unwrap());
        let (fa, fb) = (F::from_noncanonical_u64(a), F::from_noncanonical_u64(b));
        let (ca, cb) = (fa.to_canonical_u64(), fb.to_canonical_u64());
        let want = if ca <= 0xFFFF_FFFF && cb <= 0xFFFF_FFFF { Some((ca << 32) | cb) } else { None };
        assert_eq!(ser::try_felts_to_u64([fa, fb]).ok(), want, "limb decoding");
        assert_eq!(ser::try_felts_to_u64(ser::u64_to_felts(a)).ok(), Some(a));
        let n = ((a as u128) << 64) | b as u128;
        let q = n / 10_000_000_000u128;
        assert_eq!(ser::try_u128_to_quantized_felt(n).ok().map(|f| f.to_canonical_u64() as u128), if q > 0xFFFF_FFFF { None } else { Some(q) }, "quantisation of {}", n);
    }
});
