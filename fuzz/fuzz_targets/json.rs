#![no_main]
//! E8 target for C35: any document -> no panic; accepted => within every cap and validate() Ok.
use libfuzzer_sys::fuzz_target;
use zk_circuits_common::circuit::TransferProofJson;

fuzz_target!(|data: &[u8]| {
    let Ok(s) = std::str::from_utf8(data) else { return };
    // plain document and the same bytes spliced into a well-formed frame (reaches the field visitors)
    let framed = format!("{{\"transfer_count\":1,\"state_root\":\"{}\",\"storage_proof\":[\"{}\"],\"indices\":[0]}}", s.replace(['"', '\\'], ""), s.replace(['"', '\\'], ""));
    for doc in [s, framed.as_str()] {
        if let Ok(d) = TransferProofJson::from_json_str(doc) {
            assert!(doc.len() <= 8 * 1024 * 1024);
            assert!(d.validate().is_ok(), "accepted document fails validate()");
            assert!(d.state_root.len() <= 64 && d.storage_proof.len() <= 1024 && d.indices.len() <= 1024);
            assert!(d.storage_proof.iter().all(|n| n.len() <= 1 << 20) && d.storage_proof.iter().map(|n| n.len()).sum::<usize>() <= 1 << 20);
        }
    }
});
