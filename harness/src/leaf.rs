//! Field-level model of a leaf statement + witness, used by E1 on the real
//! `WormholeCircuit`. Every value the honest filler would assign is a plain u64
//! here so that attacks can bypass the Rust-side validation in `fill_targets`.

use plonky2::iop::target::Target;
use serde_json::{json, Value};
use wormhole_circuit::circuit::circuit_logic::{CircuitTargets, WormholeCircuit};
use zk_circuits_common::circuit::{wormhole_leaf_circuit_config, F};

use crate::engine::e1::{f, Circuit};
use crate::refm::{self, HeaderRef, D4};
use crate::util::rng::Rng;

pub const MAX_DEPTH: usize = 16;

#[derive(Clone, Debug)]
pub struct LeafW {
    // --- values assigned to both sides of connected targets (split-able) ---
    pub null_secret: D4,
    pub ua_secret: D4,
    pub null_tc: [u64; 2], // (hi, lo)
    pub leaf_tc: [u64; 2],
    pub ua_account: D4,
    pub leaf_to: D4,
    // --- leaf scalars ---
    pub asset: u64,
    pub input: u64,
    pub out1: u64,
    pub out2: u64,
    pub fee: u64,
    // --- public digests ---
    pub nullifier: D4,
    pub exit1: D4,
    pub exit2: D4,
    pub block_hash: D4,
    // --- header ---
    pub header: HeaderRef,
    // --- merkle ---
    pub root_hash: D4,
    pub depth: u64,
    pub siblings: Vec<[D4; 3]>, // 16 levels
    pub positions: Vec<u64>,    // 16 levels
}

#[derive(Clone, Debug, Default)]
pub struct HonestParams {
    pub depth: Option<usize>,
    pub dummy: bool,
    pub fee: Option<u64>,
    /// slack in the fee inequality (rhs - lhs), None = random
    pub exact_fee_boundary: bool,
    pub max_amounts: bool,
}

impl LeafW {
    /// Honest non-dummy (or dummy) statement; all bindings valid.
    pub fn honest(rng: &mut Rng, p: &HonestParams) -> LeafW {
        let secret: D4 = [rng.felt(), rng.felt(), rng.felt(), rng.felt()];
        let tc = if rng.chance(1, 4) {
            [rng.u32() as u64, rng.u32() as u64]
        } else {
            [0, rng.below(1000)]
        };
        let asset = if rng.chance(1, 2) { 0 } else { rng.u32() as u64 };
        let fee = p.fee.unwrap_or_else(|| match rng.below(6) {
            0 => 0,
            1 => 10000,
            2 => 9999,
            3 => 1,
            _ => rng.below(10001),
        });
        let input: u64 = if p.max_amounts {
            u32::MAX as u64
        } else if rng.chance(1, 4) {
            rng.u32() as u64
        } else {
            rng.below(1_000_000)
        };
        // max total output: floor(in*(10000-fee)/10000)
        let max_total = input * (10000 - fee) / 10000;
        let total = if p.exact_fee_boundary || rng.chance(1, 3) {
            max_total
        } else {
            rng.below(max_total + 1)
        };
        let (mut out1, mut out2) = {
            let a = rng.below(total + 1);
            (a, total - a)
        };
        if p.dummy {
            out1 = 0;
            out2 = 0;
        }
        let exit1: D4 = [rng.felt(), rng.felt(), rng.felt(), rng.felt()];
        let exit2: D4 = if rng.chance(1, 4) {
            [0; 4]
        } else if rng.chance(1, 6) {
            exit1
        } else {
            [rng.felt(), rng.felt(), rng.felt(), rng.felt()]
        };
        let depth = p.depth.unwrap_or_else(|| rng.usize(MAX_DEPTH + 1));
        let mut siblings = vec![];
        let mut positions = vec![];
        for l in 0..MAX_DEPTH {
            if l < depth {
                siblings.push([
                    [rng.felt(), rng.felt(), rng.felt(), rng.felt()],
                    [rng.felt(), rng.felt(), rng.felt(), rng.felt()],
                    [rng.felt(), rng.felt(), rng.felt(), rng.felt()],
                ]);
                positions.push(rng.below(4));
            } else {
                siblings.push([[0; 4]; 3]);
                positions.push(0);
            }
        }
        let account = refm::wormhole_address(&secret);
        let mut w = LeafW {
            null_secret: secret,
            ua_secret: secret,
            null_tc: tc,
            leaf_tc: tc,
            ua_account: account,
            leaf_to: account,
            asset,
            input,
            out1,
            out2,
            fee,
            nullifier: [0; 4],
            exit1,
            exit2,
            block_hash: [0; 4],
            header: HeaderRef {
                parent: [rng.felt(), rng.felt(), rng.felt(), rng.felt()],
                number: rng.u32() as u64,
                state_root: [rng.felt(), rng.felt(), rng.felt(), rng.felt()],
                extrinsics_root: [rng.felt(), rng.felt(), rng.felt(), rng.felt()],
                tree_root: [0; 4],
                digest: (0..28).map(|_| rng.u32() as u64).collect(),
            },
            root_hash: [0; 4],
            depth: depth as u64,
            siblings,
            positions,
        };
        w.rebind_all();
        if p.dummy {
            w.block_hash = [0; 4];
        }
        w
    }

    pub fn active_depth(&self) -> usize {
        (self.depth as usize).min(MAX_DEPTH)
    }

    /// Reference leaf hash of the leaf-side values.
    pub fn ref_leaf_hash(&self) -> D4 {
        refm::leaf_hash(&self.leaf_to, self.leaf_tc[0], self.leaf_tc[1], self.asset, self.input)
    }

    pub fn ref_root(&self) -> D4 {
        let d = self.active_depth();
        refm::merkle_fold(&self.ref_leaf_hash(), &self.siblings[..d], &self.positions[..d])
    }

    /// Recompute nullifier, account, tree root, header root and block hash so that
    /// every binding holds for the current field values (uses leaf-side values).
    pub fn rebind_all(&mut self) {
        self.nullifier = refm::nullifier(&self.null_secret, self.null_tc[0], self.null_tc[1]);
        self.ua_account = refm::wormhole_address(&self.ua_secret);
        self.leaf_to = self.ua_account;
        self.rebind_tree();
    }

    /// Recompute tree root -> header -> block hash from the leaf-side values.
    pub fn rebind_tree(&mut self) {
        self.root_hash = self.ref_root();
        self.header.tree_root = self.root_hash;
        self.block_hash = refm::block_hash(&self.header);
    }

    pub fn is_dummy_sentinel(&self) -> bool {
        refm::is_zero4(&self.block_hash) && refm::canon(self.out1) == 0 && refm::canon(self.out2) == 0
    }

    pub fn statement_pis(&self) -> Vec<u64> {
        let mut v = vec![self.asset, self.out1, self.out2, self.fee];
        v.extend_from_slice(&self.nullifier);
        v.extend_from_slice(&self.exit1);
        v.extend_from_slice(&self.exit2);
        v.extend_from_slice(&self.block_hash);
        v.push(self.header.number);
        v.iter().map(|x| refm::canon(*x)).collect()
    }

    /// Assignment to every target the honest filler sets (both sides of connected
    /// pairs are assigned, possibly with different values).
    pub fn fill(&self, t: &CircuitTargets) -> Vec<(Target, F)> {
        let mut v: Vec<(Target, F)> = Vec::with_capacity(340);
        let mut set4 = |v: &mut Vec<(Target, F)>, ts: &[Target], xs: &[u64]| {
            for (a, b) in ts.iter().zip(xs.iter()) {
                v.push((*a, f(*b)));
            }
        };
        set4(&mut v, &t.nullifier.hash.elements, &self.nullifier);
        set4(&mut v, &t.nullifier.secret.elements, &self.null_secret);
        set4(&mut v, &t.nullifier.transfer_count, &self.null_tc);
        set4(&mut v, &t.unspendable_account.account_id.elements, &self.ua_account);
        set4(&mut v, &t.unspendable_account.secret.elements, &self.ua_secret);
        let z = &t.zk_merkle_proof;
        set4(&mut v, &z.root_hash.elements, &self.root_hash);
        v.push((z.depth, f(self.depth)));
        for l in 0..MAX_DEPTH {
            for s in 0..3 {
                set4(&mut v, &z.siblings[l][s].elements, &self.siblings[l][s]);
            }
            v.push((z.positions[l], f(self.positions[l])));
        }
        set4(&mut v, &z.leaf.to_account.elements, &self.leaf_to);
        set4(&mut v, &z.leaf.transfer_count, &self.leaf_tc);
        v.push((z.leaf.asset_id, f(self.asset)));
        v.push((z.leaf.input_amount, f(self.input)));
        v.push((z.leaf.output_amount_1, f(self.out1)));
        v.push((z.leaf.output_amount_2, f(self.out2)));
        v.push((z.leaf.volume_fee_bps, f(self.fee)));
        set4(&mut v, &t.exit_accounts.exit_account_1.address.elements, &self.exit1);
        set4(&mut v, &t.exit_accounts.exit_account_2.address.elements, &self.exit2);
        let b = &t.block_header;
        set4(&mut v, &b.block_hash.elements, &self.block_hash);
        set4(&mut v, &b.header.parent_hash, &self.header.parent);
        v.push((b.header.block_number, f(self.header.number)));
        set4(&mut v, &b.header.state_root, &self.header.state_root);
        set4(&mut v, &b.header.extrinsics_root, &self.header.extrinsics_root);
        set4(&mut v, &b.header.zk_tree_root, &self.header.tree_root);
        set4(&mut v, &b.header.digest, &self.header.digest);
        v
    }

    pub fn to_json(&self) -> Value {
        json!({
            "null_secret": self.null_secret, "ua_secret": self.ua_secret,
            "null_tc": self.null_tc, "leaf_tc": self.leaf_tc,
            "ua_account": self.ua_account, "leaf_to": self.leaf_to,
            "asset": self.asset, "input": self.input, "out1": self.out1, "out2": self.out2, "fee": self.fee,
            "nullifier": self.nullifier, "exit1": self.exit1, "exit2": self.exit2,
            "block_hash": self.block_hash,
            "header": {"parent": self.header.parent, "number": self.header.number,
                       "state_root": self.header.state_root, "extrinsics_root": self.header.extrinsics_root,
                       "tree_root": self.header.tree_root, "digest": self.header.digest},
            "root_hash": self.root_hash, "depth": self.depth,
            "siblings": self.siblings, "positions": self.positions,
        })
    }

    pub fn from_json(v: &Value) -> Option<LeafW> {
        fn d4(v: &Value) -> Option<D4> {
            let a = v.as_array()?;
            Some([a.first()?.as_u64()?, a.get(1)?.as_u64()?, a.get(2)?.as_u64()?, a.get(3)?.as_u64()?])
        }
        fn d2(v: &Value) -> Option<[u64; 2]> {
            let a = v.as_array()?;
            Some([a.first()?.as_u64()?, a.get(1)?.as_u64()?])
        }
        let hd = &v["header"];
        Some(LeafW {
            null_secret: d4(&v["null_secret"])?,
            ua_secret: d4(&v["ua_secret"])?,
            null_tc: d2(&v["null_tc"])?,
            leaf_tc: d2(&v["leaf_tc"])?,
            ua_account: d4(&v["ua_account"])?,
            leaf_to: d4(&v["leaf_to"])?,
            asset: v["asset"].as_u64()?,
            input: v["input"].as_u64()?,
            out1: v["out1"].as_u64()?,
            out2: v["out2"].as_u64()?,
            fee: v["fee"].as_u64()?,
            nullifier: d4(&v["nullifier"])?,
            exit1: d4(&v["exit1"])?,
            exit2: d4(&v["exit2"])?,
            block_hash: d4(&v["block_hash"])?,
            header: HeaderRef {
                parent: d4(&hd["parent"])?,
                number: hd["number"].as_u64()?,
                state_root: d4(&hd["state_root"])?,
                extrinsics_root: d4(&hd["extrinsics_root"])?,
                tree_root: d4(&hd["tree_root"])?,
                digest: hd["digest"].as_array()?.iter().map(|x| x.as_u64().unwrap_or(0)).collect(),
            },
            root_hash: d4(&v["root_hash"])?,
            depth: v["depth"].as_u64()?,
            siblings: v["siblings"]
                .as_array()?
                .iter()
                .map(|l| {
                    let a = l.as_array().unwrap();
                    [d4(&a[0]).unwrap(), d4(&a[1]).unwrap(), d4(&a[2]).unwrap()]
                })
                .collect(),
            positions: v["positions"].as_array()?.iter().map(|x| x.as_u64().unwrap_or(0)).collect(),
        })
    }

    /// Compact description for evidence samples.
    pub fn brief(&self) -> Value {
        json!({
            "asset": self.asset, "in": self.input, "out1": self.out1, "out2": self.out2, "fee": self.fee,
            "depth": self.depth, "block_number": self.header.number,
            "dummy_sentinel": self.is_dummy_sentinel(),
            "tc": self.leaf_tc,
        })
    }
}

pub struct LeafCircuit {
    pub circuit: Circuit,
    pub targets: CircuitTargets,
}

impl LeafCircuit {
    pub fn build() -> Result<LeafCircuit, String> {
        let wc = WormholeCircuit::new(wormhole_leaf_circuit_config()).map_err(|e| e.to_string())?;
        let targets = wc.targets();
        let data = wc.build_circuit();
        let mut circuit = Circuit::new(data);
        // learn generator I/O from one honest statement
        let mut rng = Rng::new(7);
        let w = LeafW::honest(&mut rng, &HonestParams { depth: Some(3), ..Default::default() });
        circuit.learn_io(&w.fill(&targets))?;
        Ok(LeafCircuit { circuit, targets })
    }
}
