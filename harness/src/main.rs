//! qpv — property-based testing / fuzzing harness for qp-zk-circuits.
//!
//! `qpv check <ID> --tier quick|thorough [--replay <file>]`
//! exit 0: property held on everything explored; 1: VIOLATION line(s) printed;
//! 2: infrastructure problem (never a verdict).

mod engine;
mod leaf;
mod pbatch;
mod pubbatch;
mod props;
mod refm;
mod util;

use std::path::PathBuf;
use util::{Ctx, Tier};

#[global_allocator]
static GLOBAL: util::alloc::QpvAlloc = util::alloc::QpvAlloc;

fn usage() -> ! {
    eprintln!("usage: qpv check <ID> [--tier quick|thorough] [--replay <file>]");
    std::process::exit(2);
}

fn main() {
    let args: Vec<String> = std::env::args().collect();
    if args.len() < 2 {
        usage();
    }
    // Silence the default panic printer for panics we catch on purpose; set
    // QPV_PANIC_TRACE=1 to see them.
    if std::env::var("QPV_PANIC_TRACE").is_err() {
        std::panic::set_hook(Box::new(|_| {}));
    }
    match args[1].as_str() {
        "c23-child" => {
            let k: i64 = args[4].parse().unwrap_or(-1);
            props::publish::c23_child(&args[2], &args[3], k);
        }
        "c23-gen-child" => {
            let stage: u32 = args[3].parse().unwrap_or(0);
            props::publish::c23_gen_child(&args[2], stage, args[4] == "abort");
        }
        "dump-common" => {
            let leaf = wormhole_circuit::circuit::circuit_logic::WormholeCircuit::new(zk_circuits_common::circuit::wormhole_leaf_circuit_config()).unwrap().build_circuit();
            let c = &leaf.common;
            println!("degree_bits={} num_constants={} num_pis={} quotient_degree_factor={} num_partial_products={} k_is={} fri={:?}", c.fri_params.degree_bits, c.num_constants, c.num_public_inputs, c.quotient_degree_factor, c.num_partial_products, c.k_is.len(), c.fri_params.reduction_arity_bits);
            for g in &c.gates { println!("gate {} constants={} degree={}", g.0.id(), g.0.num_constants(), g.0.degree()); }
            println!("selectors {:?}", c.selectors_info);
            std::process::exit(0);
        }
        "c29-child" => {
            let ei: usize = args[2].parse().unwrap_or_else(|_| usage());
            let c: usize = args[3].parse().unwrap_or_else(|_| usage());
            props::config::c29_child(ei, c, &args[4]);
        }
        "check" => {
            if args.len() < 3 {
                usage();
            }
            let id = args[2].to_uppercase();
            let mut tier = match std::env::var("VERIF_TIER").as_deref() {
                Ok("thorough") => Tier::Thorough,
                _ => Tier::Quick,
            };
            let mut replay: Option<PathBuf> = None;
            let mut i = 3;
            while i < args.len() {
                match args[i].as_str() {
                    "--tier" => {
                        i += 1;
                        tier = match args.get(i).map(|s| s.as_str()) {
                            Some("thorough") => Tier::Thorough,
                            Some("quick") => Tier::Quick,
                            _ => usage(),
                        };
                    }
                    "quick" => tier = Tier::Quick,
                    "thorough" => tier = Tier::Thorough,
                    "--replay" => {
                        i += 1;
                        replay = Some(PathBuf::from(args.get(i).cloned().unwrap_or_else(|| usage())));
                    }
                    _ => usage(),
                }
                i += 1;
            }
            let seed: u64 = std::env::var("VERIF_SEED")
                .ok()
                .and_then(|s| s.trim().parse::<i128>().ok())
                .map(|v| v as u64)
                .unwrap_or(20260921);
            if let Some(path) = &replay {
                std::process::exit(run_replay(&id, path));
            }
            let ctx = Ctx::new(&id, tier, seed, replay);
            let known = dispatch(&ctx);
            if !known {
                eprintln!("unknown property id {}", id);
                std::process::exit(2);
            }
            std::process::exit(util::finish(&ctx));
        }
        _ => usage(),
    }
}

fn dispatch(ctx: &Ctx) -> bool {
    match ctx.id.as_str() {
        "C01" => props::leafattacks::run_c01(ctx),
        "C02" => props::leafattacks::run_c02(ctx),
        "C03" => props::leafattacks::run_c03(ctx),
        "C04" => props::leafattacks::run_c04(ctx),
        "C06" => props::privprops::run(ctx, props::privprops::Which::C06),
        "C07" => props::privprops::run(ctx, props::privprops::Which::C07),
        "C08" => props::privprops::run(ctx, props::privprops::Which::C08),
        "C09" => props::privprops::run(ctx, props::privprops::Which::C09),
        "C10" => props::gadgetprops::run_c10(ctx),
        "C30" => props::gadgetprops::run_c30(ctx),
        "C31" => props::gadgetprops::run_c31(ctx),
        "C12" => props::pubprops::run(ctx, props::pubprops::Which::C12),
        "C13" => props::pubprops::run(ctx, props::pubprops::Which::C13),
        "C36" => props::pubprops::run_c36(ctx),
        "C24" => props::parsers::run(ctx),
        "C35" => props::jsonprops::run(ctx),
        "C19" => props::poolprops::run(ctx, props::poolprops::Which::C19),
        "C20" => props::poolprops::run(ctx, props::poolprops::Which::C20),
        "C21" => props::poolprops::run(ctx, props::poolprops::Which::C21),
        "C22" => props::poolprops::run(ctx, props::poolprops::Which::C22),
        "C05" => props::leafapi::run(ctx),
        "C14" => props::provers::run_c14(ctx),
        "C15" => props::provers::run_c15(ctx),
        "C16" => props::artifacts::run_c16(ctx),
        "C17" => props::artifacts::run_c17(ctx),
        "C18" => props::artifacts::run_c18(ctx),
        "C32" => props::secrets::run_c32(ctx),
        "C33" => props::secrets::run_c33(ctx),
        "C34" => props::leanspec::run(ctx),
        "C11" => props::recursion::run(ctx),
        "C23" => props::publish::run(ctx),
        "C28" => props::config::run_c28(ctx),
        "C29" => props::config::run_c29(ctx),
        "C25" => props::encodings::run_c25(ctx),
        "C26" => props::encodings::run_c26(ctx),
        "C27" => props::encodings::run_c27(ctx),
        _ => return false,
    }
    true
}

fn run_replay(id: &str, path: &PathBuf) -> i32 {
    let Ok(s) = std::fs::read_to_string(path) else {
        eprintln!("cannot read {}", path.display());
        return 2;
    };
    let Ok(v) = serde_json::from_str::<serde_json::Value>(&s) else {
        eprintln!("bad replay json");
        return 2;
    };
    let case = &v["case"];
    let r = match case["kind"].as_str() {
        Some("leaf_attack") | Some("leaf_attack_hint") => props::leafdrv::replay(case),
        Some(k) if k.starts_with("priv_") => {
            let w = match id {
                "C06" => props::privprops::Which::C06,
                "C08" => props::privprops::Which::C08,
                "C09" => props::privprops::Which::C09,
                _ => props::privprops::Which::C07,
            };
            props::privprops::replay(case, w)
        }
        Some("lt") | Some("lt_hint") | Some("sort") | Some("sort_hint") | Some("bound") | Some("bound_hint") => props::gadgetprops::replay(case),
        Some(k) if k.starts_with("pub_") => props::pubprops::replay(
            case,
            if id == "C12" { props::pubprops::Which::C12 } else { props::pubprops::Which::C13 },
        ),
        Some(k) if k.starts_with("c25_") || k.starts_with("c26_") || k.starts_with("c27_") => props::encodings::replay(case),
        Some(k) if k.starts_with("c28_") || k.starts_with("c29") => props::config::replay(case),
        Some(k) if k.starts_with("c35_") => props::jsonprops::replay(case),
        Some("c23") | Some("c23_gen") => props::publish::replay(case),
        Some("c05_honest") | Some("c05_malformed") => props::leafapi::replay(case),
        Some(k) if k.starts_with("c14_") || k.starts_with("c15") => props::provers::replay(case),
        Some("c32") | Some("c33") => props::secrets::replay(case),
        Some("pool_history") => props::poolprops::replay(case, id),
        Some("c24") | Some("c24_pilen") => props::parsers::replay(case),
        other => Err(format!("no replay handler for kind {:?}", other)),
    };
    // Cases without a direct re-execution handler (their generating model is not stored in the
    // file, or they are statistical): re-run the whole check from the recorded seed and tier and
    // look for the recorded signature. Nothing is written to evidence/ or replays/ in this mode.
    let r = match r {
        Err(e) => {
            let seed = v["seed"].as_u64().unwrap_or(20260921);
            let tier = if v["tier"] == "thorough" { Tier::Thorough } else { Tier::Quick };
            let sig = v["signature"].as_str().unwrap_or("").to_string();
            eprintln!("replay: {} -> re-running {} {} with the recorded seed {} and looking for signature [{}]", e, id, tier.name(), seed, sig);
            let ctx = Ctx::new(id, tier, seed, Some(path.clone()));
            if !dispatch(&ctx) {
                Err(format!("unknown property id {}", id))
            } else {
                let t = ctx.tally.lock().unwrap();
                Ok(t.violations.iter().any(|x| x.signature == sig))
            }
        }
        ok => ok,
    };
    match r {
        Ok(true) => {
            println!("VIOLATION property={} replay={}", id, path.display());
            1
        }
        Ok(false) => {
            println!("replay: violation does not reproduce");
            0
        }
        Err(e) => {
            eprintln!("replay error: {}", e);
            2
        }
    }
}
