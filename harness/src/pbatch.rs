//! Private-batch wrapper: wrapper-only circuit (hook H2) over free child public
//! inputs, the ~60-line reference model, and generators of leaf-statement vectors.

use plonky2::iop::target::Target;
use plonky2::plonk::circuit_builder::CircuitBuilder;
use plonky2::plonk::circuit_data::{CircuitConfig, CommonCircuitData};
use serde_json::{json, Value};
use wormhole_aggregator::private_batch::circuit::circuit_logic::{
    verif_build_private_batch_constraints, PrivateBatchCircuitTargets,
};
use zk_circuits_common::circuit::{D, F};

use crate::engine::e1::{f, Circuit};
use crate::refm::{self, D4, P};
use crate::util::rng::Rng;

pub const LEAF_PI: usize = 21;

/// One leaf statement (the 21 public inputs of a child proof), canonical u64s.
#[derive(Clone, Debug, PartialEq, Eq, Hash)]
pub struct LeafStmt {
    pub asset: u64,
    pub out1: u64,
    pub out2: u64,
    pub fee: u64,
    pub nullifier: D4,
    pub exit1: D4,
    pub exit2: D4,
    pub block_hash: D4,
    pub block_number: u64,
}

impl LeafStmt {
    pub fn pis(&self) -> [u64; LEAF_PI] {
        let mut v = [0u64; LEAF_PI];
        v[0] = self.asset;
        v[1] = self.out1;
        v[2] = self.out2;
        v[3] = self.fee;
        v[4..8].copy_from_slice(&self.nullifier);
        v[8..12].copy_from_slice(&self.exit1);
        v[12..16].copy_from_slice(&self.exit2);
        v[16..20].copy_from_slice(&self.block_hash);
        v[20] = self.block_number;
        v
    }
    pub fn from_pis(v: &[u64]) -> LeafStmt {
        LeafStmt {
            asset: v[0],
            out1: v[1],
            out2: v[2],
            fee: v[3],
            nullifier: [v[4], v[5], v[6], v[7]],
            exit1: [v[8], v[9], v[10], v[11]],
            exit2: [v[12], v[13], v[14], v[15]],
            block_hash: [v[16], v[17], v[18], v[19]],
            block_number: v[20],
        }
    }
    pub fn is_dummy(&self) -> bool {
        self.block_hash == [0; 4]
    }
    pub fn to_json(&self) -> Value {
        json!(self.pis().to_vec())
    }
}

#[derive(Clone, Debug, PartialEq, Eq)]
pub enum Reject {
    Asset,
    Block,
    Fee,
    DuplicateNullifier,
    SumRange,
}

#[derive(Clone, Debug)]
pub struct PrivRef {
    pub verdict: Result<(), Reject>,
    /// all failing conjuncts (for "one conjunct away" classification)
    pub failing: Vec<Reject>,
    /// specified output (meaningful when accepted)
    pub output: Vec<u64>,
    pub first_real: Option<usize>,
}

pub fn dummy_nullifier(pre: &D4) -> D4 {
    refm::h(&refm::h(pre))
}

/// Reference semantics of the private-batch wrapper (statements C06/C07).
pub fn reference(leaves: &[LeafStmt], pre: &[D4]) -> PrivRef {
    let n = leaves.len();
    let mut failing = vec![];
    if leaves.iter().any(|l| l.asset != leaves[0].asset) {
        failing.push(Reject::Asset);
    }
    let first_real = leaves.iter().position(|l| !l.is_dummy());
    let (fee_ref, bh_ref, bn_ref) = match first_real {
        Some(i) => (leaves[i].fee, leaves[i].block_hash, leaves[i].block_number),
        None => (0, [0; 4], 0),
    };
    if leaves.iter().any(|l| !l.is_dummy() && l.block_hash != bh_ref) {
        failing.push(Reject::Block);
    }
    if leaves.iter().any(|l| !l.is_dummy() && l.fee != fee_ref) {
        failing.push(Reject::Fee);
    }
    'o: for i in 0..n {
        for j in i + 1..n {
            if !leaves[i].is_dummy() && !leaves[j].is_dummy() && leaves[i].nullifier == leaves[j].nullifier {
                failing.push(Reject::DuplicateNullifier);
                break 'o;
            }
        }
    }
    // masked pairs in slot order
    let mut pairs: Vec<(D4, u128)> = vec![];
    for l in leaves {
        if l.is_dummy() {
            pairs.push(([0; 4], 0));
            pairs.push(([0; 4], 0));
        } else {
            pairs.push((l.exit1, l.out1 as u128));
            pairs.push((l.exit2, l.out2 as u128));
        }
    }
    let mut slots: Vec<(u128, D4)> = vec![];
    let mut sum_overflow = false;
    for s in 0..pairs.len() {
        let acct = pairs[s].0;
        let dup = pairs[..s].iter().any(|p| p.0 == acct);
        let total: u128 = pairs.iter().filter(|p| p.0 == acct).map(|p| p.1).sum();
        if dup {
            slots.push((0, [0; 4]));
        } else {
            if total >= (1u128 << 32) {
                sum_overflow = true;
            }
            slots.push((total, acct));
        }
    }
    if sum_overflow {
        failing.push(Reject::SumRange);
    }
    let mut nulls: Vec<D4> = leaves
        .iter()
        .zip(pre.iter())
        .map(|(l, u)| if l.is_dummy() { dummy_nullifier(u) } else { l.nullifier })
        .collect();
    nulls.sort();
    let mut out = vec![2 * n as u64, leaves[0].asset, fee_ref];
    out.extend_from_slice(&bh_ref);
    out.push(bn_ref);
    for (sum, acct) in &slots {
        out.push((*sum % P as u128) as u64);
        out.extend_from_slice(acct);
    }
    for nl in &nulls {
        out.extend_from_slice(nl);
    }
    out.resize(LEAF_PI * n + 8, 0);
    PrivRef {
        verdict: match failing.first() {
            None => Ok(()),
            Some(r) => Err(r.clone()),
        },
        failing,
        output: out,
        first_real,
    }
}

pub struct PrivCircuit {
    pub n: usize,
    pub circuit: Circuit,
    pub targets: PrivateBatchCircuitTargets,
}

impl PrivCircuit {
    /// Wrapper-only circuit: the repo's wrapper builder over verifier-less child targets.
    pub fn build(n: usize, leaf_common: &CommonCircuitData<F, D>, config: CircuitConfig) -> Result<PrivCircuit, String> {
        let mut builder = CircuitBuilder::<F, D>::new(config);
        let mut leaf_proofs = vec![];
        for _ in 0..n {
            leaf_proofs.push(builder.add_virtual_proof_with_pis(leaf_common));
        }
        let mut pre = vec![];
        for _ in 0..n {
            pre.push([
                builder.add_virtual_target(),
                builder.add_virtual_target(),
                builder.add_virtual_target(),
                builder.add_virtual_target(),
            ]);
        }
        let targets = PrivateBatchCircuitTargets {
            leaf_proofs,
            dummy_nullifier_pre_images: pre,
        };
        verif_build_private_batch_constraints(&mut builder, &targets, n);
        let data = builder.build::<zk_circuits_common::circuit::C>();
        let mut pc = PrivCircuit {
            n,
            circuit: Circuit::new(data),
            targets,
        };
        // learn generator I/O on an accepted batch
        let mut rng = Rng::new(11 + n as u64);
        let (leaves, pre) = gen_accepted(&mut rng, n);
        let inputs = pc.fill(&leaves, &pre);
        pc.circuit.learn_io(&inputs)?;
        Ok(pc)
    }

    pub fn fill(&self, leaves: &[LeafStmt], pre: &[D4]) -> Vec<(Target, F)> {
        let mut v = Vec::with_capacity(self.n * 25);
        for (i, l) in leaves.iter().enumerate() {
            let pis = l.pis();
            for (t, x) in self.targets.leaf_proofs[i].public_inputs.iter().zip(pis.iter()) {
                v.push((*t, f(*x)));
            }
        }
        for (i, u) in pre.iter().enumerate() {
            for j in 0..4 {
                v.push((self.targets.dummy_nullifier_pre_images[i][j], f(u[j])));
            }
        }
        v
    }
}

// ------------------------------------------------------------------ generators

const EDGE_LIMBS: [u64; 8] = [0, 1, 0xFFFF_FFFF, 1 << 32, (1 << 32) + 1, P - 2, P - 1, 2];

pub struct Pools {
    pub accounts: Vec<D4>,
    pub nullifiers: Vec<D4>,
    pub blocks: Vec<(D4, u64)>, // (hash, number) real blocks
    pub fees: Vec<u64>,
    pub assets: Vec<u64>,
}

pub fn make_pools(rng: &mut Rng) -> Pools {
    let edgy = |rng: &mut Rng| -> D4 {
        let mut d = [0u64; 4];
        for x in d.iter_mut() {
            *x = if rng.chance(1, 2) { *rng.pick(&EDGE_LIMBS) } else { rng.felt() };
        }
        d
    };
    let mut accounts = vec![[0u64; 4]];
    let a = edgy(rng);
    accounts.push(a);
    // differs from `a` in exactly one limb
    let mut a2 = a;
    let li = rng.usize(4);
    a2[li] = refm::fadd(a2[li], 1);
    if rng.bool() {
        // differs from `a` by an algebraically structured vector
        a2 = refm::add4(&a, &refm::structured_delta(rng));
    }
    accounts.push(a2);
    accounts.push([rng.felt(), rng.felt(), rng.felt(), rng.felt()]);
    accounts.push(if rng.bool() { [0, 0, 0, 1] } else { refm::structured_delta(rng) });
    let mut nullifiers = vec![];
    let nl = edgy(rng);
    nullifiers.push(nl);
    let mut nl2 = nl;
    let li = rng.usize(4);
    nl2[li] = refm::fadd(nl2[li], 1);
    if rng.bool() {
        nl2 = refm::add4(&nl, &refm::structured_delta(rng));
    }
    nullifiers.push(nl2);
    for _ in 0..4 {
        nullifiers.push([rng.felt_edgy(), rng.felt_edgy(), rng.felt(), rng.felt()]);
    }
    nullifiers.push([0; 4]);
    let b1 = {
        let mut b = edgy(rng);
        if b == [0; 4] {
            b[3] = 1;
        }
        b
    };
    let mut b2 = b1;
    let li = rng.usize(4);
    b2[li] = refm::fadd(b2[li], 1);
    if rng.bool() {
        b2 = refm::add4(&b1, &refm::structured_delta(rng));
    }
    if b2 == [0; 4] {
        b2[0] = 5;
    }
    // third block: a hash "close to" the all-zero dummy sentinel
    let b3 = if rng.bool() { [0, 0, 1, 0] } else { refm::structured_delta(rng) };
    let blocks = vec![(b1, rng.u32() as u64), (b2, rng.u32() as u64), (b3, 7)];
    Pools {
        accounts,
        nullifiers,
        blocks,
        fees: vec![rng.below(10001), rng.below(10001)],
        assets: vec![0, 1 + rng.below(1000)],
    }
}

fn amount(rng: &mut Rng) -> u64 {
    match rng.below(8) {
        0 => 0,
        1 => 1,
        2 => 1 << 31,
        3 => (1 << 31) - 1,
        4 => u32::MAX as u64,
        5 => (1 << 30) + rng.below(5),
        _ => rng.below(100_000),
    }
}

/// A dummy slot carrying arbitrary felts (everything but the asset is free).
pub fn gen_dummy(rng: &mut Rng, pools: &Pools, asset: u64) -> LeafStmt {
    let wild = rng.chance(1, 2);
    let g = |rng: &mut Rng| -> u64 {
        if wild {
            rng.felt_edgy()
        } else {
            0
        }
    };
    LeafStmt {
        asset,
        out1: g(rng),
        out2: g(rng),
        fee: if wild { rng.felt_edgy() } else { 10 },
        nullifier: if rng.chance(1, 2) { *rng.pick(&pools.nullifiers) } else { [g(rng), g(rng), g(rng), g(rng)] },
        exit1: if rng.chance(1, 2) { *rng.pick(&pools.accounts) } else { [g(rng), g(rng), g(rng), g(rng)] },
        exit2: if rng.chance(1, 2) { *rng.pick(&pools.accounts) } else { [g(rng), g(rng), g(rng), g(rng)] },
        block_hash: [0; 4],
        block_number: g(rng),
    }
}

pub fn gen_real(rng: &mut Rng, pools: &Pools, asset: u64, block: usize, fee: u64, nul: D4) -> LeafStmt {
    LeafStmt {
        asset,
        out1: amount(rng),
        out2: amount(rng),
        fee,
        nullifier: nul,
        exit1: *rng.pick(&pools.accounts),
        exit2: *rng.pick(&pools.accounts),
        block_hash: pools.blocks[block].0,
        block_number: pools.blocks[block].1,
    }
}

/// Arbitrary vector of leaf statements: mostly compatible, with each conjunct
/// violated with moderate probability (so that both verdicts are common).
pub fn gen_batch(rng: &mut Rng, n: usize) -> (Vec<LeafStmt>, Vec<D4>) {
    let pools = make_pools(rng);
    let asset = *rng.pick(&pools.assets);
    let fee = pools.fees[0];
    let all_dummy = rng.chance(1, 25);
    let p_dummy = rng.below(4); // 0..3 out of 4
    let break_asset = rng.chance(1, 8);
    let break_block = rng.chance(1, 8);
    let break_fee = rng.chance(1, 8);
    let dup_null = rng.chance(1, 6);
    let mut leaves = vec![];
    let mut fresh_nulls: Vec<D4> = pools.nullifiers.clone();
    rng.shuffle(&mut fresh_nulls);
    for i in 0..n {
        let dummy = all_dummy || rng.below(4) < p_dummy;
        let l = if dummy {
            gen_dummy(rng, &pools, asset)
        } else {
            let nul = if dup_null || i >= fresh_nulls.len() {
                if dup_null {
                    *rng.pick(&pools.nullifiers)
                } else {
                    [rng.felt(), rng.felt(), rng.felt(), rng.felt()]
                }
            } else {
                fresh_nulls[i]
            };
            gen_real(rng, &pools, asset, 0, fee, nul)
        };
        leaves.push(l);
    }
    if n > 0 {
        if break_asset {
            let i = rng.usize(n);
            leaves[i].asset = pools.assets[(pools.assets.iter().position(|a| *a == asset).unwrap() + 1) % 2];
        }
        if break_block {
            let i = rng.usize(n);
            if !leaves[i].is_dummy() {
                let b = 1 + rng.usize(2);
                leaves[i].block_hash = pools.blocks[b].0;
                leaves[i].block_number = pools.blocks[b].1;
            }
        }
        if break_fee {
            let i = rng.usize(n);
            leaves[i].fee = pools.fees[1];
        }
    }
    let pre: Vec<D4> = (0..n)
        .map(|_| {
            if rng.chance(1, 5) {
                [*rng.pick(&EDGE_LIMBS), 0, 0, *rng.pick(&EDGE_LIMBS)]
            } else {
                [rng.felt(), rng.felt(), rng.felt(), rng.felt()]
            }
        })
        .collect();
    (leaves, pre)
}

/// A batch the reference accepts (used for learn_io and for metamorphic bases).
pub fn gen_accepted(rng: &mut Rng, n: usize) -> (Vec<LeafStmt>, Vec<D4>) {
    for _ in 0..200 {
        let (l, p) = gen_batch(rng, n);
        if reference(&l, &p).verdict.is_ok() {
            return (l, p);
        }
    }
    // fallback: trivially compatible batch
    let pools = make_pools(rng);
    let leaves: Vec<LeafStmt> = (0..n)
        .map(|i| {
            let mut l = gen_real(rng, &pools, 0, 0, 10, [i as u64 + 1, 2, 3, 4]);
            l.out1 = 1;
            l.out2 = 2;
            l
        })
        .collect();
    let pre = (0..n).map(|i| [i as u64, 1, 2, 3]).collect();
    (leaves, pre)
}

pub fn batch_json(leaves: &[LeafStmt], pre: &[D4]) -> Value {
    json!({"leaves": leaves.iter().map(|l| l.to_json()).collect::<Vec<_>>(), "preimages": pre})
}

pub fn batch_from_json(v: &Value) -> Option<(Vec<LeafStmt>, Vec<D4>)> {
    let leaves = v["leaves"]
        .as_array()?
        .iter()
        .map(|l| {
            let a: Vec<u64> = l.as_array().unwrap().iter().map(|x| x.as_u64().unwrap_or(0)).collect();
            LeafStmt::from_pis(&a)
        })
        .collect();
    let pre = v["preimages"]
        .as_array()?
        .iter()
        .map(|p| {
            let a: Vec<u64> = p.as_array().unwrap().iter().map(|x| x.as_u64().unwrap_or(0)).collect();
            [a[0], a[1], a[2], a[3]]
        })
        .collect();
    Some((leaves, pre))
}
