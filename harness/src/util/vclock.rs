//! Virtual monotonic clock owned by the harness (E3).
//!
//! The harness binary defines `clock_gettime`; the statically linked std resolves
//! its calls to this definition. When the calling thread has armed a virtual time,
//! `CLOCK_MONOTONIC` returns exactly that frozen value; otherwise the raw syscall is
//! issued. `Instant::now()` inside the code under test is therefore exact model
//! time on armed threads, and other threads keep real time.

use std::cell::Cell;

thread_local! {
    /// virtual time in nanoseconds; negative = not armed
    static VNOW: Cell<i128> = const { Cell::new(-1) };
}

#[no_mangle]
pub unsafe extern "C" fn clock_gettime(clk: libc::clockid_t, ts: *mut libc::timespec) -> libc::c_int {
    if clk == libc::CLOCK_MONOTONIC {
        if let Ok(v) = VNOW.try_with(|c| c.get()) {
            if v >= 0 {
                (*ts).tv_sec = (v / 1_000_000_000) as libc::time_t;
                (*ts).tv_nsec = (v % 1_000_000_000) as libc::c_long;
                return 0;
            }
        }
    }
    libc::syscall(libc::SYS_clock_gettime, clk, ts) as libc::c_int
}

/// Base of virtual time (large enough that saturating subtractions never clamp).
pub const BASE_NS: i128 = 1_000_000i128 * 1_000_000_000;

pub fn arm(offset_ns: u64) {
    VNOW.with(|c| c.set(BASE_NS + offset_ns as i128));
}

pub fn disarm() {
    VNOW.with(|c| c.set(-1));
}

/// Self-test: with the clock armed, Instant is frozen and advances exactly.
pub fn self_test() -> Result<(), String> {
    use std::time::{Duration, Instant};
    arm(0);
    let a = Instant::now();
    let mut x = 0u64;
    for i in 0..100_000u64 {
        x = x.wrapping_mul(31).wrapping_add(i);
    }
    std::hint::black_box(x);
    let b = Instant::now();
    arm(61_000_000_000);
    let c = Instant::now();
    disarm();
    let r1 = Instant::now();
    std::thread::sleep(Duration::from_millis(2));
    let r2 = Instant::now();
    if b.duration_since(a) != Duration::ZERO {
        return Err(format!("armed clock is not frozen: {:?}", b.duration_since(a)));
    }
    if c.duration_since(a) != Duration::from_secs(61) {
        return Err(format!("armed clock did not advance exactly: {:?}", c.duration_since(a)));
    }
    if r2.duration_since(r1) < Duration::from_millis(1) {
        return Err("disarmed clock does not follow real time".into());
    }
    Ok(())
}
