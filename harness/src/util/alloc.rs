//! E6 — instrumented global allocator of the harness binary.
//!
//! Per-thread, opt-in instrumentation (everything is off unless the current thread
//! armed it):
//!  * accounting: bytes allocated, largest single allocation, optional hard limit
//!    (the process exits with code 77 when the armed thread allocates more than
//!    the limit — used by child processes that probe "rejects before allocating");
//!  * scanning: every block freed (or shrunk/moved by realloc) by the armed thread is
//!    searched for a 32-byte needle before it is returned to the system allocator.

use std::alloc::{GlobalAlloc, Layout, System};
use std::cell::{Cell, UnsafeCell};

pub struct QpvAlloc;

pub const MAX_HITS: usize = 16;

#[derive(Clone, Copy)]
pub struct Hit {
    pub size: usize,
    pub offset: usize,
    /// first 64 bytes of the block (for exemption matching)
    pub head: [u8; 64],
    /// fnv of the whole block
    pub fp: u64,
}

struct ScanState {
    /// (size, fnv) of whole blocks that are documented exemptions
    exempt: [(usize, u64); 4],
    exempt_hits: u64,
    needle: [u8; 32],
    hits: [Option<Hit>; MAX_HITS],
    n_hits: usize,
    freed_blocks: u64,
    freed_bytes: u64,
}

thread_local! {
    static ACCOUNTING: Cell<bool> = const { Cell::new(false) };
    static ALLOCATED: Cell<u64> = const { Cell::new(0) };
    static MAX_SINGLE: Cell<u64> = const { Cell::new(0) };
    static LIMIT: Cell<u64> = const { Cell::new(u64::MAX) };
    static WATCH_LO: Cell<u64> = const { Cell::new(u64::MAX) };
    static WATCH_HI: Cell<u64> = const { Cell::new(0) };
    static WATCH_HITS: Cell<u64> = const { Cell::new(0) };
    static SCANNING: Cell<bool> = const { Cell::new(false) };
    static SCAN: UnsafeCell<ScanState> = const { UnsafeCell::new(ScanState { exempt: [(0, 0); 4], exempt_hits: 0, needle: [0; 32], hits: [None; MAX_HITS], n_hits: 0, freed_blocks: 0, freed_bytes: 0 }) };
}

#[inline]
fn note_alloc(size: usize) {
    let _ = ACCOUNTING.try_with(|a| {
        if a.get() {
            let _ = ALLOCATED.try_with(|c| {
                let v = c.get() + size as u64;
                c.set(v);
                let _ = LIMIT.try_with(|l| {
                    if v > l.get() {
                        unsafe { libc::_exit(77) };
                    }
                });
            });
            let _ = MAX_SINGLE.try_with(|m| {
                if size as u64 > m.get() {
                    m.set(size as u64)
                }
            });
            let _ = WATCH_LO.try_with(|lo| {
                if size as u64 >= lo.get() {
                    let _ = WATCH_HI.try_with(|hi| {
                        if size as u64 <= hi.get() {
                            let _ = WATCH_HITS.try_with(|h| h.set(h.get() + 1));
                        }
                    });
                }
            });
        }
    });
}

/// Scans a block that is about to be released. Returns true when it contains the needle
/// (exempt or not): the caller then zeroes it, so that stale copies of an already reported
/// (or exempt) block cannot show up later inside unrelated, partly uninitialised blocks.
#[inline]
unsafe fn scan_block(ptr: *const u8, size: usize) -> bool {
    let mut found = false;
    let _ = SCANNING.try_with(|s| {
        if !s.get() {
            return;
        }
        let _ = SCAN.try_with(|cell| {
            let st = &mut *cell.get();
            st.freed_blocks += 1;
            st.freed_bytes += size as u64;
            if size < 32 {
                return;
            }
            let block = std::slice::from_raw_parts(ptr, size);
            let first = st.needle[0];
            let mut i = 0;
            while i + 32 <= size {
                if block[i] == first && block[i..i + 32] == st.needle {
                    found = true;
                    let mut h: u64 = 0xcbf2_9ce4_8422_2325;
                    for b in block {
                        h ^= *b as u64;
                        h = h.wrapping_mul(0x0000_0100_0000_01b3);
                    }
                    if st.exempt.iter().any(|(l, fp)| *l == size && *fp == h) {
                        st.exempt_hits += 1;
                        return;
                    }
                    if st.n_hits < MAX_HITS {
                        let mut head = [0u8; 64];
                        let k = size.min(64);
                        head[..k].copy_from_slice(&block[..k]);
                        st.hits[st.n_hits] = Some(Hit { size, offset: i, head, fp: h });
                        st.n_hits += 1;
                    }
                    return;
                }
                i += 1;
            }
        });
    });
    found
}

#[inline]
fn scanning_armed() -> bool {
    SCANNING.try_with(|s| s.get()).unwrap_or(false)
}

unsafe impl GlobalAlloc for QpvAlloc {
    unsafe fn alloc(&self, layout: Layout) -> *mut u8 {
        note_alloc(layout.size());
        System.alloc(layout)
    }
    unsafe fn alloc_zeroed(&self, layout: Layout) -> *mut u8 {
        note_alloc(layout.size());
        System.alloc_zeroed(layout)
    }
    unsafe fn dealloc(&self, ptr: *mut u8, layout: Layout) {
        if scan_block(ptr, layout.size()) {
            std::ptr::write_bytes(ptr, 0, layout.size());
        }
        System.dealloc(ptr, layout)
    }
    unsafe fn realloc(&self, ptr: *mut u8, layout: Layout, new_size: usize) -> *mut u8 {
        if scanning_armed() {
            // behave like GlobalAlloc's default realloc (allocate, copy, release the old block), so
            // that every growth of a buffer is a release of its old block -- exactly what the
            // repo's own scanning allocator observes
            let new_layout = Layout::from_size_align_unchecked(new_size, layout.align());
            let new_ptr = self.alloc(new_layout);
            if !new_ptr.is_null() {
                std::ptr::copy_nonoverlapping(ptr, new_ptr, layout.size().min(new_size));
                self.dealloc(ptr, layout);
            }
            return new_ptr;
        }
        if new_size > layout.size() {
            note_alloc(new_size - layout.size());
        }
        System.realloc(ptr, layout, new_size)
    }
}

// ------------------------------------------------------------------ accounting API

pub struct Accounting {
    pub allocated: u64,
    pub max_single: u64,
    /// allocations whose size fell into the watched range (see `account_watching`)
    pub watched_hits: u64,
}

/// Run `f` with allocation accounting armed on this thread.
pub fn account<T>(limit: Option<u64>, f: impl FnOnce() -> T) -> (T, Accounting) {
    account_watching(limit, u64::MAX, 0, f)
}

/// As `account`, additionally counting allocations with size in `lo..=hi` (used to tell
/// "the oversized file was read into memory" apart from unrelated large allocations).
pub fn account_watching<T>(limit: Option<u64>, lo: u64, hi: u64, f: impl FnOnce() -> T) -> (T, Accounting) {
    WATCH_LO.with(|c| c.set(lo));
    WATCH_HI.with(|c| c.set(hi));
    WATCH_HITS.with(|c| c.set(0));
    ALLOCATED.with(|c| c.set(0));
    MAX_SINGLE.with(|c| c.set(0));
    LIMIT.with(|c| c.set(limit.unwrap_or(u64::MAX)));
    ACCOUNTING.with(|c| c.set(true));
    let r = f();
    ACCOUNTING.with(|c| c.set(false));
    LIMIT.with(|c| c.set(u64::MAX));
    WATCH_LO.with(|c| c.set(u64::MAX));
    (r, Accounting { allocated: ALLOCATED.with(|c| c.get()), max_single: MAX_SINGLE.with(|c| c.get()), watched_hits: WATCH_HITS.with(|c| c.get()) })
}

// --------------------------------------------------------------------- scanning API

pub struct ScanReport {
    pub hits: Vec<Hit>,
    pub exempt_hits: u64,
    pub freed_blocks: u64,
    pub freed_bytes: u64,
}

/// Run `f` with free-block scanning for `needle` armed on this thread.
pub fn scan_frees<T>(needle: [u8; 32], exempt: &[(usize, u64)], f: impl FnOnce() -> T) -> (T, ScanReport) {
    SCAN.with(|cell| unsafe {
        let st = &mut *cell.get();
        st.exempt = [(0, 0); 4];
        for (i, e) in exempt.iter().take(4).enumerate() {
            st.exempt[i] = *e;
        }
        st.exempt_hits = 0;
        st.needle = needle;
        st.n_hits = 0;
        st.hits = [None; MAX_HITS];
        st.freed_blocks = 0;
        st.freed_bytes = 0;
    });
    SCANNING.with(|c| c.set(true));
    let r = f();
    SCANNING.with(|c| c.set(false));
    let rep = SCAN.with(|cell| unsafe {
        let st = &mut *cell.get();
        let rep = ScanReport { hits: st.hits.iter().flatten().copied().collect(), exempt_hits: st.exempt_hits, freed_blocks: st.freed_blocks, freed_bytes: st.freed_bytes };
        st.needle = [0; 32];
        rep
    });
    (r, rep)
}
