//! Deterministic PRNG for all harness-side random choices (splitmix64 seeding a
//! xoshiro256**). No wall clock, no thread_rng: every run is a pure function of
//! VERIF_SEED and the code under test.

#[derive(Clone, Debug)]
pub struct Rng {
    s: [u64; 4],
}

pub fn splitmix(x: &mut u64) -> u64 {
    *x = x.wrapping_add(0x9E37_79B9_7F4A_7C15);
    let mut z = *x;
    z = (z ^ (z >> 30)).wrapping_mul(0xBF58_476D_1CE4_E5B9);
    z = (z ^ (z >> 27)).wrapping_mul(0x94D0_49BB_1331_11EB);
    z ^ (z >> 31)
}

pub const P: u64 = 0xFFFF_FFFF_0000_0001;

impl Rng {
    pub fn new(seed: u64) -> Self {
        let mut x = seed;
        let s = [
            splitmix(&mut x),
            splitmix(&mut x),
            splitmix(&mut x),
            splitmix(&mut x),
        ];
        Rng { s }
    }

    /// Independent stream for worker / sub-task `i`.
    pub fn fork(seed: u64, i: u64) -> Self {
        let mut x = seed ^ 0xA5A5_5A5A_DEAD_BEEF;
        let a = splitmix(&mut x);
        let mut y = i.wrapping_mul(0xD6E8_FEB8_6659_FD93).wrapping_add(a);
        Rng::new(splitmix(&mut y))
    }

    pub fn u64(&mut self) -> u64 {
        let r = self.s[1].wrapping_mul(5).rotate_left(7).wrapping_mul(9);
        let t = self.s[1] << 17;
        self.s[2] ^= self.s[0];
        self.s[3] ^= self.s[1];
        self.s[1] ^= self.s[2];
        self.s[0] ^= self.s[3];
        self.s[2] ^= t;
        self.s[3] = self.s[3].rotate_left(45);
        r
    }

    pub fn u32(&mut self) -> u32 {
        (self.u64() >> 32) as u32
    }

    /// Uniform in 0..n (n > 0).
    pub fn below(&mut self, n: u64) -> u64 {
        debug_assert!(n > 0);
        ((self.u64() as u128 * n as u128) >> 64) as u64
    }

    pub fn usize(&mut self, n: usize) -> usize {
        self.below(n as u64) as usize
    }

    pub fn range(&mut self, lo: u64, hi_incl: u64) -> u64 {
        lo + self.below(hi_incl - lo + 1)
    }

    pub fn bool(&mut self) -> bool {
        self.u64() & 1 == 1
    }

    /// True with probability num/den.
    pub fn chance(&mut self, num: u64, den: u64) -> bool {
        self.below(den) < num
    }

    pub fn pick<'a, T>(&mut self, xs: &'a [T]) -> &'a T {
        &xs[self.usize(xs.len())]
    }

    /// Canonical Goldilocks element, uniform.
    pub fn felt(&mut self) -> u64 {
        loop {
            let v = self.u64();
            if v < P {
                return v;
            }
        }
    }

    /// Canonical felt biased to the boundary set {0,1,2^32-1,2^32,2^32+1,p-2,p-1}.
    pub fn felt_edgy(&mut self) -> u64 {
        const E: [u64; 9] = [
            0,
            1,
            2,
            0xFFFF_FFFE,
            0xFFFF_FFFF,
            0x1_0000_0000,
            0x1_0000_0001,
            P - 2,
            P - 1,
        ];
        if self.chance(1, 2) {
            *self.pick(&E)
        } else {
            self.felt()
        }
    }

    pub fn bytes(&mut self, n: usize) -> Vec<u8> {
        let mut v = Vec::with_capacity(n);
        while v.len() < n {
            let w = self.u64().to_le_bytes();
            let take = (n - v.len()).min(8);
            v.extend_from_slice(&w[..take]);
        }
        v
    }

    /// 32 bytes whose four LE limbs are canonical felts.
    pub fn canon32(&mut self) -> [u8; 32] {
        let mut out = [0u8; 32];
        for i in 0..4 {
            out[i * 8..i * 8 + 8].copy_from_slice(&self.felt().to_le_bytes());
        }
        out
    }

    pub fn shuffle<T>(&mut self, xs: &mut [T]) {
        for i in (1..xs.len()).rev() {
            let j = self.usize(i + 1);
            xs.swap(i, j);
        }
    }
}
