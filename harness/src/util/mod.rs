pub mod alloc;
pub mod rng;
pub mod vclock;

use serde_json::{json, Map, Value};
use std::collections::{BTreeMap, HashSet};
use std::path::PathBuf;
use std::sync::Mutex;
use std::time::Instant;

pub const VERIF_DIR_DEFAULT: &str = "/verif";

/// Root of the verification directory: where ./check lives (evidence/, replays/, known_findings.json).
pub fn verif_dir() -> String {
    std::env::var("QPV_VERIF_DIR").unwrap_or_else(|_| VERIF_DIR_DEFAULT.to_string())
}

#[derive(Clone, Copy, Debug, PartialEq, Eq)]
pub enum Tier {
    Quick,
    Thorough,
}

impl Tier {
    pub fn name(self) -> &'static str {
        match self {
            Tier::Quick => "quick",
            Tier::Thorough => "thorough",
        }
    }
    /// pick(quick, thorough)
    pub fn pick<T>(self, q: T, t: T) -> T {
        match self {
            Tier::Quick => q,
            Tier::Thorough => t,
        }
    }
}

pub fn fnv(bytes: &[u8]) -> u64 {
    let mut h: u64 = 0xcbf2_9ce4_8422_2325;
    for b in bytes {
        h ^= *b as u64;
        h = h.wrapping_mul(0x0000_0100_0000_01b3);
    }
    h
}

pub fn fnv_u64s(xs: &[u64]) -> u64 {
    let mut h: u64 = 0xcbf2_9ce4_8422_2325;
    for x in xs {
        for b in x.to_le_bytes() {
            h ^= b as u64;
            h = h.wrapping_mul(0x0000_0100_0000_01b3);
        }
    }
    h
}

pub fn fnv_str(s: &str) -> u64 {
    fnv(s.as_bytes())
}

#[derive(Clone, Debug)]
pub struct Violation {
    /// Stable root-cause key (matched against known_findings.json).
    pub signature: String,
    pub description: String,
    /// Minimal reproduction, self-describing.
    pub case: Value,
}

/// Per-worker accumulator; merged into the Ctx at the end of a parallel section.
#[derive(Default, Debug)]
pub struct Tally {
    pub evaluations: u64,
    pub nontrivial: HashSet<u64>,
    pub classes: BTreeMap<String, u64>,
    pub samples: Vec<Value>,
    pub violations: Vec<Violation>,
    pub infra: Vec<String>,
    pub traces_validated: u64,
    pub counters: BTreeMap<String, u64>,
}

pub const MAX_SAMPLES_PER_TALLY: usize = 6;

impl Tally {
    pub fn new() -> Self {
        Self::default()
    }
    pub fn eval(&mut self) {
        self.evaluations += 1;
    }
    pub fn evals(&mut self, n: u64) {
        self.evaluations += n;
    }
    pub fn nontrivial(&mut self, fp: u64) {
        self.nontrivial.insert(fp);
    }
    pub fn class(&mut self, name: &str) {
        *self.classes.entry(name.to_string()).or_insert(0) += 1;
    }
    pub fn count(&mut self, name: &str, n: u64) {
        *self.counters.entry(name.to_string()).or_insert(0) += n;
    }
    pub fn sample(&mut self, v: Value) {
        if self.samples.len() < MAX_SAMPLES_PER_TALLY {
            self.samples.push(v);
        }
    }
    pub fn sample_if_new_class(&mut self, class: &str, v: impl FnOnce() -> Value) {
        if !self.classes.contains_key(class) && self.samples.len() < 24 {
            self.samples.push(v());
        }
    }
    pub fn violation(&mut self, signature: impl Into<String>, description: impl Into<String>, case: Value) {
        // Keep the search going but bound memory: at most 20 recorded per tally.
        if self.violations.len() < 20 {
            self.violations.push(Violation {
                signature: signature.into(),
                description: description.into(),
                case,
            });
        }
    }
    pub fn infra(&mut self, msg: impl Into<String>) {
        if self.infra.len() < 20 {
            self.infra.push(msg.into());
        }
    }
    pub fn merge(&mut self, o: Tally) {
        self.evaluations += o.evaluations;
        self.nontrivial.extend(o.nontrivial);
        for (k, v) in o.classes {
            *self.classes.entry(k).or_insert(0) += v;
        }
        for (k, v) in o.counters {
            *self.counters.entry(k).or_insert(0) += v;
        }
        for s in o.samples {
            if self.samples.len() < 40 {
                self.samples.push(s);
            }
        }
        self.violations.extend(o.violations);
        self.infra.extend(o.infra);
        self.traces_validated += o.traces_validated;
    }
}

pub struct Ctx {
    pub id: String,
    pub tier: Tier,
    pub seed: u64,
    pub replay: Option<PathBuf>,
    pub start: Instant,
    pub tally: Mutex<Tally>,
    pub level: Mutex<String>,
    pub rule: Mutex<String>,
    pub assumptions: Mutex<Vec<String>>,
    pub extra: Mutex<Map<String, Value>>,
    pub exhaustive: Mutex<Option<bool>>,
}

impl Ctx {
    pub fn new(id: &str, tier: Tier, seed: u64, replay: Option<PathBuf>) -> Self {
        Ctx {
            id: id.to_string(),
            tier,
            seed,
            replay,
            start: Instant::now(),
            tally: Mutex::new(Tally::new()),
            level: Mutex::new("exploration".into()),
            rule: Mutex::new(String::new()),
            assumptions: Mutex::new(vec![]),
            extra: Mutex::new(Map::new()),
            exhaustive: Mutex::new(None),
        }
    }
    pub fn merge(&self, t: Tally) {
        self.tally.lock().unwrap().merge(t);
    }
    pub fn set_rule(&self, s: &str) {
        *self.rule.lock().unwrap() = s.to_string();
    }
    pub fn set_level(&self, s: &str) {
        *self.level.lock().unwrap() = s.to_string();
    }
    pub fn assume(&self, s: &str) {
        self.assumptions.lock().unwrap().push(s.to_string());
    }
    pub fn extra(&self, k: &str, v: Value) {
        self.extra.lock().unwrap().insert(k.to_string(), v);
    }
    pub fn set_exhaustive(&self, b: bool) {
        *self.exhaustive.lock().unwrap() = Some(b);
    }
    pub fn n_workers(&self) -> usize {
        std::env::var("VERIF_WORKERS")
            .ok()
            .and_then(|s| s.parse().ok())
            .unwrap_or_else(|| {
                std::thread::available_parallelism()
                    .map(|n| n.get())
                    .unwrap_or(8)
                    .min(16)
            })
    }

    /// Run `f(worker_index, tally)` on n worker threads and merge.
    pub fn par<F>(&self, n: usize, f: F)
    where
        F: Fn(usize, &mut Tally) + Sync,
    {
        std::thread::scope(|s| {
            let mut hs = vec![];
            for w in 0..n {
                let f = &f;
                hs.push(
                    std::thread::Builder::new()
                        .stack_size(64 << 20)
                        .spawn_scoped(s, move || {
                            let mut t = Tally::new();
                            let r = std::panic::catch_unwind(std::panic::AssertUnwindSafe(|| {
                                f(w, &mut t)
                            }));
                            if let Err(e) = r {
                                t.infra(format!("worker {} panicked: {}", w, panic_msg(&e)));
                            }
                            t
                        })
                        .unwrap(),
                );
            }
            for h in hs {
                match h.join() {
                    Ok(t) => self.merge(t),
                    Err(_) => self
                        .tally
                        .lock()
                        .unwrap()
                        .infra("worker thread join failed".to_string()),
                }
            }
        });
    }
}

pub fn panic_msg(e: &Box<dyn std::any::Any + Send>) -> String {
    if let Some(s) = e.downcast_ref::<&str>() {
        s.to_string()
    } else if let Some(s) = e.downcast_ref::<String>() {
        s.clone()
    } else {
        "<non-string panic>".into()
    }
}

/// catch_unwind with the panic message; silences the default hook output for
/// expected panics only through the global quiet hook installed in main.
pub fn catch<T>(f: impl FnOnce() -> T) -> Result<T, String> {
    std::panic::catch_unwind(std::panic::AssertUnwindSafe(f)).map_err(|e| panic_msg(&e))
}

#[derive(Debug, Clone)]
pub struct KnownFinding {
    pub property: String,
    pub status: String,
    pub signature: String,
    pub what: String,
}

pub fn load_known_findings() -> Vec<KnownFinding> {
    let p = format!("{}/known_findings.json", verif_dir());
    let Ok(s) = std::fs::read_to_string(&p) else {
        return vec![];
    };
    let Ok(v) = serde_json::from_str::<Value>(&s) else {
        return vec![];
    };
    let mut out = vec![];
    if let Some(arr) = v.get("findings").and_then(|a| a.as_array()) {
        for f in arr {
            out.push(KnownFinding {
                property: f["property"].as_str().unwrap_or("").into(),
                status: f["status"].as_str().unwrap_or("").into(),
                signature: f["signature"].as_str().unwrap_or("").into(),
                what: f["what"].as_str().unwrap_or("").into(),
            });
        }
    }
    out
}

/// Signatures of findings recorded as "known" (not fixed) for a property; checks
/// use this to exclude the reaching generator class by construction.
pub fn known_signatures(id: &str) -> Vec<String> {
    load_known_findings()
        .into_iter()
        .filter(|k| k.property == id && k.status == "known")
        .map(|k| k.signature)
        .collect()
}

/// Writes evidence, prints VIOLATION / KNOWN-FINDING lines, returns exit code.
pub fn finish(ctx: &Ctx) -> i32 {
    let t = ctx.tally.lock().unwrap();
    let known = load_known_findings();
    let mut real: Vec<&Violation> = vec![];
    let mut known_hits: BTreeMap<String, String> = BTreeMap::new();
    for v in &t.violations {
        if let Some(k) = known
            .iter()
            .find(|k| k.property == ctx.id && k.status == "known" && k.signature == v.signature)
        {
            known_hits.insert(k.signature.clone(), k.what.clone());
        } else {
            real.push(v);
        }
    }
    // Deduplicate by signature for reporting.
    let mut seen = HashSet::new();
    let mut lines = vec![];
    for v in &real {
        if !seen.insert(v.signature.clone()) {
            continue;
        }
        let fp = fnv_str(&format!("{}|{}", v.signature, v.case));
        let path = format!("{}/replays/{}-{:016x}.json", verif_dir(), ctx.id, fp);
        let body = json!({
            "property": ctx.id,
            "signature": v.signature,
            "description": v.description,
            "seed": ctx.seed,
            "tier": ctx.tier.name(),
            "case": v.case,
        });
        let _ = std::fs::create_dir_all(format!("{}/replays", verif_dir()));
        let _ = std::fs::write(&path, serde_json::to_string_pretty(&body).unwrap());
        lines.push(format!("VIOLATION property={} replay={}", ctx.id, path));
        eprintln!("violation [{}]: {}", v.signature, v.description);
    }
    for (sig, what) in &known_hits {
        println!("KNOWN-FINDING: property={} {} [{}]", ctx.id, what, sig);
    }

    let distinct = t.nontrivial.len() as u64;
    let mut coverage = Map::new();
    coverage.insert("evaluations".into(), json!(t.evaluations));
    coverage.insert("distinct_nontrivial".into(), json!(distinct));
    coverage.insert("rule".into(), json!(ctx.rule.lock().unwrap().clone()));
    let samples: Vec<Value> = t.samples.iter().take(12).cloned().collect();
    coverage.insert("samples".into(), Value::Array(samples));
    coverage.insert("classes".into(), json!(t.classes));
    if !t.counters.is_empty() {
        coverage.insert("counters".into(), json!(t.counters));
    }
    if t.traces_validated > 0 {
        coverage.insert(
            "traces_validated_against_impl".into(),
            json!(t.traces_validated),
        );
    }
    if let Some(b) = *ctx.exhaustive.lock().unwrap() {
        coverage.insert("exhaustive".into(), json!(b));
    }
    for (k, v) in ctx.extra.lock().unwrap().iter() {
        coverage.insert(k.clone(), v.clone());
    }
    let wall = ctx.start.elapsed().as_secs_f64();
    let ev = json!({
        "property_id": ctx.id,
        "tier": ctx.tier.name(),
        "seed": ctx.seed,
        "level": ctx.level.lock().unwrap().clone(),
        "coverage": Value::Object(coverage),
        "assumptions": ctx.assumptions.lock().unwrap().clone(),
        "wall_s": wall,
        "violations": real.len(),
        "known_findings_hit": known_hits.keys().cloned().collect::<Vec<_>>(),
        "infra_errors": t.infra,
    });
    let _ = std::fs::create_dir_all(format!("{}/evidence", verif_dir()));
    let path = format!("{}/evidence/{}.json", verif_dir(), ctx.id);
    let tmp = format!("{}.tmp", path);
    std::fs::write(&tmp, serde_json::to_string_pretty(&ev).unwrap()).expect("write evidence");
    std::fs::rename(&tmp, &path).expect("rename evidence");

    for l in &lines {
        println!("{}", l);
    }
    if !lines.is_empty() {
        return 1;
    }
    if !t.infra.is_empty() {
        for m in &t.infra {
            eprintln!("infra: {}", m);
        }
        return 2;
    }
    if t.evaluations == 0 || distinct < 2 {
        eprintln!(
            "infra: vacuous run (evaluations={}, distinct_nontrivial={})",
            t.evaluations, distinct
        );
        return 2;
    }
    println!(
        "OK property={} tier={} seed={} evaluations={} distinct_nontrivial={} wall_s={:.1}",
        ctx.id,
        ctx.tier.name(),
        ctx.seed,
        t.evaluations,
        distinct,
        wall
    );
    0
}

pub fn hex32(b: &[u8]) -> String {
    hex::encode(b)
}

/// Greedy delta-debugging over a vector: repeatedly drop chunks (halving the chunk
/// size) while `fails` stays true. Used to shrink histories / vectors to a small
/// reproduction before they are written to a replay file.
pub fn ddmin<T: Clone>(mut v: Vec<T>, mut fails: impl FnMut(&[T]) -> bool) -> Vec<T> {
    let mut chunk = v.len().div_ceil(2).max(1);
    let mut budget = 4000usize;
    while chunk >= 1 && !v.is_empty() && budget > 0 {
        let mut i = 0;
        let mut progressed = false;
        while i < v.len() && budget > 0 {
            let end = (i + chunk).min(v.len());
            let mut cand = Vec::with_capacity(v.len() - (end - i));
            cand.extend_from_slice(&v[..i]);
            cand.extend_from_slice(&v[end..]);
            budget -= 1;
            if fails(&cand) {
                v = cand;
                progressed = true;
            } else {
                i += chunk;
            }
        }
        if chunk == 1 && !progressed {
            break;
        }
        if !progressed {
            chunk /= 2;
        } else {
            chunk = chunk.min(v.len().max(1));
        }
    }
    v
}

/// Element-wise simplification of a u64 vector (towards 0) while `fails` holds.
pub fn simplify_u64s(mut v: Vec<u64>, mut fails: impl FnMut(&[u64]) -> bool) -> Vec<u64> {
    let mut budget = 3000usize;
    for i in 0..v.len() {
        if budget == 0 {
            break;
        }
        if v[i] == 0 {
            continue;
        }
        let old = v[i];
        for cand in [0u64, 1] {
            if cand == old {
                continue;
            }
            v[i] = cand;
            budget -= 1;
            if fails(&v) {
                break;
            }
            v[i] = old;
        }
    }
    v
}

/// Redirects the process's stdout to /dev/null until dropped (the repo's artifact
/// builders print progress lines). Create it on the main thread around a whole run.
pub struct StdoutSilencer {
    saved: i32,
}

impl StdoutSilencer {
    pub fn new() -> Self {
        use std::io::Write;
        let _ = std::io::stdout().flush();
        unsafe {
            let saved = libc::dup(1);
            let null = libc::open(b"/dev/null\0".as_ptr() as *const libc::c_char, libc::O_WRONLY);
            if null >= 0 {
                libc::dup2(null, 1);
                libc::close(null);
            }
            StdoutSilencer { saved }
        }
    }
}

impl Drop for StdoutSilencer {
    fn drop(&mut self) {
        use std::io::Write;
        let _ = std::io::stdout().flush();
        unsafe {
            if self.saved >= 0 {
                libc::dup2(self.saved, 1);
                libc::close(self.saved);
            }
        }
    }
}
