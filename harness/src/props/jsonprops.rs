//! C35 — transfer-proof JSON parsing is bounded and consistent with validation.
//! Grammar-based documents rendered from a model; the oracle is computed from the
//! model (not by re-parsing).

use serde_json::json;
use zk_circuits_common::circuit::TransferProofJson;

use crate::util::rng::Rng;
use crate::util::{catch, fnv, Ctx, Tally};

const MAX_DOC: usize = 8 * 1024 * 1024;
const MAX_NODES: usize = 1024;
const MAX_NODE: usize = 1 << 20;
const MAX_TOTAL: usize = 1 << 20;
const MAX_INDICES: usize = 1024;
const MAX_ROOT: usize = 64;

#[derive(Clone, Debug)]
struct Model {
    transfer_count: u64,
    state_root: String,
    /// render state_root with \u00XX escapes
    escape_root: bool,
    storage_proof: Vec<String>,
    indices: Vec<u64>,
    /// order of the four fields (+ unknown ones)
    order: Vec<usize>,
    unknown: Option<String>,
    /// whitespace padding appended inside the document to reach this raw length
    pad_to: Option<usize>,
    /// where and with what the document is padded (see `render`)
    pad_kind: u8,
    tag: &'static str,
}

impl Model {
    fn caps_exceeded(&self) -> Vec<&'static str> {
        let mut v = vec![];
        if self.state_root.len() > MAX_ROOT {
            v.push("state_root");
        }
        if self.storage_proof.len() > MAX_NODES {
            v.push("node-count");
        }
        if self.storage_proof.iter().any(|n| n.len() > MAX_NODE) {
            v.push("node-length");
        }
        if self.storage_proof.iter().map(|n| n.len()).sum::<usize>() > MAX_TOTAL {
            v.push("total-length");
        }
        if self.indices.len() > MAX_INDICES {
            v.push("index-count");
        }
        v
    }

    fn render(&self) -> String {
        let mut fields: Vec<String> = vec![];
        for &k in &self.order {
            match k {
                0 => fields.push(format!("\"transfer_count\":{}", self.transfer_count)),
                1 => {
                    let body: String = if self.escape_root {
                        self.state_root.chars().map(|c| if c.is_ascii() { format!("\\u{:04x}", c as u32) } else { c.to_string() }).collect()
                    } else {
                        self.state_root.clone()
                    };
                    fields.push(format!("\"state_root\":\"{}\"", body));
                }
                2 => {
                    let mut s = String::with_capacity(self.storage_proof.iter().map(|n| n.len() + 3).sum::<usize>() + 20);
                    s.push_str("\"storage_proof\":[");
                    for (i, n) in self.storage_proof.iter().enumerate() {
                        if i > 0 {
                            s.push(',');
                        }
                        s.push('"');
                        s.push_str(n);
                        s.push('"');
                    }
                    s.push(']');
                    fields.push(s);
                }
                3 => fields.push(format!("\"indices\":[{}]", self.indices.iter().map(|x| x.to_string()).collect::<Vec<_>>().join(","))),
                _ => {
                    if let Some(u) = &self.unknown {
                        fields.push(u.clone());
                    }
                }
            }
        }
        let mut doc = format!("{{{}", fields.join(","));
        let Some(p) = self.pad_to else {
            doc.push('}');
            return doc;
        };
        let cur = doc.len() + 1;
        let need = p.saturating_sub(cur);
        let ws = |n: usize, set: &[char]| -> String { (0..n).map(|i| set[i % set.len()]).collect() };
        match self.pad_kind {
            // 1: whitespace before the document, 2: after it, 6: mixed JSON whitespace inside
            1 => format!("{}{}}}", ws(need, &[' ', '\n']), doc),
            2 => format!("{}}}{}", doc, ws(need, &[' ', '\n', '\t'])),
            6 => format!("{}{}}}", doc, ws(need, &['\t', '\n', '\r', ' '])),
            // 3: leading byte-order marks (3 bytes each; not JSON, but a tolerant reader may strip them
            //    *before* measuring), 4: one byte-order mark, the rest inside
            3 => format!("{}{}{}}}", "\u{feff}".repeat(need / 3), ws(need % 3, &[' ']), doc),
            4 if need >= 3 => format!("\u{feff}{}{}}}", doc, ws(need - 3, &[' '])),
            // 5: one ignored extra field carrying the padding
            5 if need >= 9 && !fields.is_empty() => format!("{},\"pad\":\"{}\"}}", doc, "x".repeat(need - 9)),
            _ => format!("{}{}}}", doc, ws(need, &[' '])),
        }
    }
}

fn hexs(rng: &mut Rng, n: usize) -> String {
    const H: &[u8] = b"0123456789abcdef";
    let fill = H[rng.usize(16)] as char;
    let mut s: String = std::iter::repeat(fill).take(n).collect();
    if n > 0 && rng.bool() {
        // vary a few characters
        let mut b = s.into_bytes();
        for _ in 0..3.min(n) {
            let i = rng.usize(n);
            b[i] = H[rng.usize(16)];
        }
        s = String::from_utf8(b).unwrap();
    }
    s
}

fn base_model(rng: &mut Rng) -> Model {
    let mut order = vec![0, 1, 2, 3];
    rng.shuffle(&mut order);
    let unknown = if rng.chance(1, 3) {
        let pos = rng.usize(order.len() + 1);
        order.insert(pos, 4);
        Some(match rng.below(4) {
            0 => "\"extra\":{\"a\":[1,2,{\"b\":null}],\"c\":\"x\"}".to_string(),
            1 => "\"note\":\"\\ud83d\\ude00 \\n\\t\"".to_string(),
            2 => format!("\"deep\":{}1{}", "[".repeat(40), "]".repeat(40)),
            _ => "\"n\":-1.5e10".to_string(),
        })
    } else {
        None
    };
    Model {
        transfer_count: match rng.below(4) {
            0 => 0,
            1 => u64::MAX,
            _ => rng.u64() >> rng.below(64),
        },
        state_root: { let n = *rng.pick(&[0usize, 2, 32, 63, 64]); hexs(rng, n) },
        escape_root: false,
        storage_proof: (0..rng.usize(6)).map(|_| { let n = 2 * rng.usize(60); hexs(rng, n) }).collect(),
        indices: (0..rng.usize(8)).map(|_| rng.below(16)).collect(),
        order,
        unknown,
        pad_to: None,
        pad_kind: 0,
        tag: "small",
    }
}

fn gen_model(rng: &mut Rng, heavy: bool) -> Model {
    let mut m = base_model(rng);
    let pick = if heavy { 7 + rng.below(9) } else { rng.below(7) };
    match pick {
        0 | 1 => {}
        2 => {
            let n = *rng.pick(&[63usize, 64, 65, 66, 128]);
            m.state_root = hexs(rng, n);
            m.escape_root = rng.bool();
            m.tag = "state_root-cap";
        }
        3 => {
            // multi-byte characters: byte length differs from char count
            let k = *rng.pick(&[21usize, 22, 16, 32]);
            m.state_root = "\u{20ac}".repeat(k) + &"a".repeat(*rng.pick(&[0usize, 1, 2]));
            m.tag = "state_root-multibyte";
        }
        4 => {
            let k = *rng.pick(&[1023usize, 1024, 1025, 1026, 2048]);
            m.storage_proof = (0..k).map(|_| { let n = *rng.pick(&[0usize, 2, 4]); hexs(rng, n) }).collect();
            m.tag = "node-count-cap";
        }
        5 => {
            let k = *rng.pick(&[1023usize, 1024, 1025, 1026, 4000]);
            m.indices = (0..k).map(|_| rng.below(1000)).collect();
            m.tag = "index-count-cap";
        }
        6 => {
            m.transfer_count = u64::MAX;
            m.indices = vec![u64::MAX, 0, 1 << 63];
            m.tag = "integer-edges";
        }
        7 | 8 => {
            // totals spread over k nodes around 2^20
            let k = *rng.pick(&[2usize, 3, 16, 1024]);
            let total = *rng.pick(&[MAX_TOTAL - 1, MAX_TOTAL, MAX_TOTAL + 1, MAX_TOTAL + 2]);
            let each = total / k;
            let mut nodes: Vec<String> = (0..k).map(|_| hexs(rng, each)).collect();
            let rem = total - each * k;
            nodes[0].push_str(&"0".repeat(rem));
            m.storage_proof = nodes;
            m.tag = "total-length-cap";
        }
        9 | 10 => {
            // one node around 2^20 (the others empty so that only the node/total caps matter)
            let n = *rng.pick(&[MAX_NODE - 1, MAX_NODE, MAX_NODE + 1, MAX_NODE + 2]);
            m.storage_proof = vec![hexs(rng, n)];
            m.tag = "node-length-cap";
        }
        _ => {
            // valid and within every field cap, padded with whitespace around 8 MiB
            m.pad_to = Some(*rng.pick(&[MAX_DOC - 1, MAX_DOC, MAX_DOC + 1, MAX_DOC + 2]));
            m.pad_kind = rng.below(7) as u8;
            m.tag = "raw-cap";
        }
    }
    m
}

fn judge(doc: &str, model: Option<&Model>, t: &mut Tally, label: &str) {
    t.eval();
    let small_case = |doc: &str| -> serde_json::Value {
        if doc.len() <= 2000 {
            json!({"kind": "c35_doc", "document": doc})
        } else {
            json!({"kind": "c35_big", "len": doc.len(), "head": &doc[..doc.char_indices().nth(300).map(|x| x.0).unwrap_or(doc.len())], "label": label})
        }
    };
    let r = match catch(|| TransferProofJson::from_json_str(doc)) {
        Err(p) => {
            t.violation("C35:panic", format!("from_json_str panicked ({}): {}", label, p), small_case(doc));
            return;
        }
        Ok(r) => r,
    };
    let oversized = doc.len() > MAX_DOC;
    let caps = model.map(|m| m.caps_exceeded()).unwrap_or_default();
    match &r {
        Ok(d) => {
            if oversized {
                t.violation("C35:accepts-oversized-document", format!("from_json_str accepts a {}-byte document (> 8 MiB)", doc.len()), small_case(doc));
            }
            if let Some(c) = caps.first() {
                t.violation(format!("C35:accepts-over-cap:{}", c), format!("from_json_str accepts a document exceeding caps {:?}", caps), small_case(doc));
            }
            match catch(|| d.validate()) {
                Ok(Ok(())) => {}
                Ok(Err(e)) => t.violation("C35:accepted-fails-validate", format!("accepted document fails validate(): {}", e), small_case(doc)),
                Err(p) => t.violation("C35:validate-panic", p, small_case(doc)),
            }
            if let Some(m) = model {
                let same = d.transfer_count == m.transfer_count && d.state_root == m.state_root && d.storage_proof == m.storage_proof && d.indices.iter().map(|x| *x as u64).collect::<Vec<_>>() == m.indices;
                if !same {
                    t.violation("C35:wrong-value", "accepted document decodes to values different from the generating model".to_string(), small_case(doc));
                }
            }
            t.class(&format!("{}|accepted", label));
        }
        Err(_) => {
            t.class(&format!("{}|rejected", label));
        }
    }
    // control bookkeeping: clean in-cap documents
    if let Some(_m) = model {
        if !oversized && caps.is_empty() {
            t.count("clean in-cap documents", 1);
            if r.is_ok() {
                t.count("clean in-cap documents accepted", 1);
            }
        }
    }
}

fn mutate(rng: &mut Rng, doc: &str) -> String {
    let mut b = doc.as_bytes().to_vec();
    if b.is_empty() {
        return String::new();
    }
    match rng.below(6) {
        0 => b.truncate(rng.usize(b.len())),
        1 => {
            let i = rng.usize(b.len());
            b[i] = *rng.pick(b"\"\\{}[],:0x \n\x01");
        }
        2 => {
            let i = rng.usize(b.len());
            b.insert(i, *rng.pick(b"\"\\{}[],:-e."));
        }
        3 => {
            let i = rng.usize(b.len());
            b.remove(i);
        }
        4 => {
            // duplicate a field
            let s = String::from_utf8_lossy(&b).to_string();
            return s.replacen('{', "{\"transfer_count\":1,", 1);
        }
        _ => {
            let s = String::from_utf8_lossy(&b).to_string();
            let variants = ["\"transfer_count\":\"7\"", "\"transfer_count\":-1", "\"transfer_count\":18446744073709551616", "\"indices\":[-1]", "\"indices\":[1.5]", "\"state_root\":17", "\"storage_proof\":[1]", "\"storage_proof\":\"00\"", "\"state_root\":\"\\ud800\""];
            let v = *rng.pick(&variants);
            let key = v.split(':').next().unwrap();
            // replace the field value crudely by prepending the variant and removing nothing: becomes a duplicate or type error
            if rng.bool() {
                return s.replacen('{', &format!("{{{},", v), 1);
            }
            if let Some(pos) = s.find(key) {
                let end = s[pos..].find(|c| c == ',' || c == '}').map(|e| pos + e).unwrap_or(s.len());
                let mut o = s[..pos].to_string();
                o.push_str(v);
                o.push_str(&s[end..]);
                return o;
            }
            return s;
        }
    }
    String::from_utf8_lossy(&b).to_string()
}

pub fn run(ctx: &Ctx) {
    let n_small = ctx.tier.pick(60_000usize, 2_000_000);
    let n_heavy = ctx.tier.pick(480usize, 8_000);
    ctx.set_rule(&format!(
        "grammar-based documents rendered from a model: the four fields in any order, optional unknown fields (nested objects, deep arrays, escapes, surrogate pairs), integers at u64 edges; \
         {} small documents (clean, or one mutation: truncation, byte replace/insert/delete, duplicated field, wrong-typed field, lone surrogate) and {} cap-focused documents: state_root of 63/64/65/66 bytes plain, \\u00XX-escaped (raw and decoded lengths differ) and multi-byte; \
         storage_proof with 1023/1024/1025 nodes, one node of 2^20-1/2^20/2^20+1, totals 2^20-1/2^20/2^20+1 spread over 2..1024 nodes; indices 1023/1024/1025; valid documents padded to 8 MiB-1 .. 8 MiB+4 with whitespace inside / before / after the document, mixed JSON whitespace, leading byte-order marks, or one ignored extra field. \
         Oracle (from the model): never panics; raw length > 8 MiB => Err; any cap exceeded => Err; Ok(d) => d.validate() Ok and d equals the model. Control: a run in which no clean in-cap document is accepted exits 2. \
         Non-trivial: a document within +-1 of some cap (cap-focused classes); distinct by document fingerprint.",
        n_small, n_heavy));
    ctx.assume("documents malformed by mutation have no reference decode: for them only no-panic and accepted => validate() Ok are asserted");
    let workers = ctx.n_workers();
    ctx.par(workers, |wi, t| {
        let mut rng = Rng::fork(ctx.seed, wi as u64);
        for c in 0..n_small.div_ceil(workers) {
            let m = gen_model(&mut rng, false);
            let doc = m.render();
            if rng.chance(1, 2) {
                judge(&doc, Some(&m), t, m.tag);
                if m.tag != "small" {
                    t.nontrivial(fnv(doc.as_bytes()));
                }
                if c < 2 {
                    t.sample(json!({"class": m.tag, "document_head": &doc[..doc.len().min(200)], "len": doc.len()}));
                }
            } else {
                let mutated = mutate(&mut rng, &doc);
                judge(&mutated, None, t, "mutated");
            }
        }
        for c in 0..n_heavy.div_ceil(workers) {
            let mut m = gen_model(&mut rng, true);
            // force the heavy classes by quota
            let want = 11 + (c % 5) as u64;
            let _ = want;
            if c % 3 == 0 {
                m = base_model(&mut rng);
                m.pad_to = Some(*rng.pick(&[MAX_DOC - 1, MAX_DOC, MAX_DOC + 1, MAX_DOC + 2, MAX_DOC + 3, MAX_DOC + 4]));
                m.pad_kind = rng.below(7) as u8;
                m.tag = "raw-cap";
            }
            let doc = m.render();
            judge(&doc, Some(&m), t, m.tag);
            if m.tag != "small" {
                t.nontrivial(fnv(&doc.as_bytes()[..doc.len().min(4096)]) ^ doc.len() as u64);
            }
        }
    });
    let tl = ctx.tally.lock().unwrap();
    let clean = tl.counters.get("clean in-cap documents").copied().unwrap_or(0);
    let acc = tl.counters.get("clean in-cap documents accepted").copied().unwrap_or(0);
    drop(tl);
    if clean == 0 || acc == 0 {
        ctx.tally.lock().unwrap().infra(format!("control failed: {} clean in-cap documents generated, {} accepted", clean, acc));
    }
}

pub fn replay(case: &serde_json::Value) -> Result<bool, String> {
    let mut t = Tally::new();
    match case["kind"].as_str().unwrap_or("") {
        "c35_doc" => {
            let doc = case["document"].as_str().ok_or("document")?;
            judge(doc, None, &mut t, "replay");
            // cap excess recomputed from a generic parse (the generating model is not stored)
            if let (Ok(v), Ok(Ok(_))) = (serde_json::from_str::<serde_json::Value>(doc), catch(|| TransferProofJson::from_json_str(doc))) {
                let sl = |k: &str| v[k].as_str().map(|s| s.len()).unwrap_or(0);
                let nodes: Vec<usize> = v["storage_proof"].as_array().map(|a| a.iter().map(|n| n.as_str().map(|s| s.len()).unwrap_or(0)).collect()).unwrap_or_default();
                let over = sl("state_root") > MAX_ROOT || nodes.len() > MAX_NODES || nodes.iter().any(|n| *n > MAX_NODE) || nodes.iter().sum::<usize>() > MAX_TOTAL
                    || v["indices"].as_array().map(|a| a.len()).unwrap_or(0) > MAX_INDICES;
                if over {
                    return Ok(true);
                }
            }
        }
        _ => return Err("large C35 documents are regenerated from the recorded seed (re-run the check with VERIF_SEED)".into()),
    }
    // without the model only panics / validate disagreements / the raw cap reproduce
    Ok(!t.violations.is_empty())
}
