pub mod leafattacks;
pub mod leafdrv;
pub mod privprops;
pub mod pubprops;
pub mod gadgetprops;
pub mod parsers;
pub mod encodings;
