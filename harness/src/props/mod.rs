pub mod leafattacks;
pub mod leafdrv;
