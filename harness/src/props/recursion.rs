//! C11 — recursive verification accepts only the canonical child circuit.
//! Programs (variant child circuits) are generated from a family; a valid proof of
//! each is planted into the canonical-child batch circuit, bypassing the provers'
//! preflight (the circuit itself must be unsatisfiable), and the real prover and
//! verifier decide.

use plonky2::field::types::Field;
use plonky2::iop::target::Target;
use plonky2::iop::witness::{PartialWitness, WitnessWrite};
use plonky2::plonk::circuit_builder::CircuitBuilder;
use plonky2::plonk::circuit_data::{CircuitConfig, CircuitData};
use plonky2::plonk::proof::ProofWithPublicInputs;
use serde_json::json;
use wormhole_aggregator::private_batch::circuit::circuit_logic::PrivateBatchCircuit;
use wormhole_aggregator::common::utils::ensure_proof_shape_matches_targets;
use wormhole_aggregator::private_batch::circuit::circuit_logic::PrivateBatchCircuitTargets;
use wormhole_aggregator::public_batch::circuit::circuit_logic::PublicBatchCircuitTargets;
use wormhole_aggregator::public_batch::circuit::circuit_logic::PublicBatchCircuit;
use wormhole_circuit::circuit::circuit_logic::WormholeCircuit;
use zk_circuits_common::circuit::{wormhole_leaf_circuit_config, wormhole_private_batch_circuit_config, wormhole_public_batch_circuit_config, C, D, F};

use crate::leaf::HonestParams;
use crate::props::artifacts::real_leaf_proof;
use crate::props::config::passthrough;
use crate::util::rng::Rng;
use crate::util::{catch, fnv_str, Ctx, Tally};

type Proof = ProofWithPublicInputs<F, C, D>;

/// The repo's witness fillers are crate-private; these follow them step by step using the
/// public shape preflight (`ensure_proof_shape_matches_targets`) and plonky2's witness writer.
fn fill_private_batch_witness(pw: &mut PartialWitness<F>, tg: &PrivateBatchCircuitTargets, proofs: &[Proof], pre: &[[F; 4]]) -> Result<(), String> {
    if proofs.len() != tg.leaf_proofs.len() || pre.len() != proofs.len() {
        return Err("count mismatch".into());
    }
    for (i, (pt, p)) in tg.leaf_proofs.iter().zip(proofs.iter()).enumerate() {
        ensure_proof_shape_matches_targets(pt, p, i, "leaf proof").map_err(|e| e.to_string())?;
        pw.set_proof_with_pis_target(pt, p).map_err(|e| e.to_string())?;
    }
    for (q, v) in tg.dummy_nullifier_pre_images.iter().zip(pre.iter()) {
        for j in 0..4 {
            pw.set_target(q[j], v[j]).map_err(|e| e.to_string())?;
        }
    }
    Ok(())
}

fn fill_public_batch_witness(pw: &mut PartialWitness<F>, tg: &PublicBatchCircuitTargets, proofs: &[Proof], addr: [F; 4]) -> Result<(), String> {
    if proofs.len() != tg.private_batch_proofs.len() {
        return Err("count mismatch".into());
    }
    for (i, (pt, p)) in tg.private_batch_proofs.iter().zip(proofs.iter()).enumerate() {
        ensure_proof_shape_matches_targets(pt, p, i, "private-batch proof").map_err(|e| e.to_string())?;
        pw.set_proof_with_pis_target(pt, p).map_err(|e| e.to_string())?;
    }
    for j in 0..4 {
        pw.set_target(tg.aggregator_address[j], addr[j]).map_err(|e| e.to_string())?;
    }
    Ok(())
}

/// A variant child circuit with `num_pis` public inputs and a valid proof of it.
struct Variant {
    name: String,
    data: CircuitData<F, C, D>,
    proof: Proof,
}

fn prove_all_pis(data: &CircuitData<F, C, D>, targets: &[Target], pis: &[u64]) -> Result<Proof, String> {
    let mut pw = PartialWitness::new();
    for (t, v) in targets.iter().zip(pis.iter()) {
        pw.set_target(*t, F::from_canonical_u64(*v)).map_err(|e| e.to_string())?;
    }
    data.prove(pw).map_err(|e| e.to_string())
}

/// Variant circuits with `num_pis` public inputs, built from a small grammar:
/// config in {standard, zk, private-batch}, constraint set in {none, range checks on
/// chosen positions, equality between two positions, a Poseidon hash of a prefix
/// exposed as the last four inputs}, padding to a chosen degree.
fn gen_variant(rng: &mut Rng, num_pis: usize, pis: &[u64], idx: usize) -> Result<Variant, String> {
    let (cfg_name, cfg) = match idx % 3 {
        0 => ("standard", CircuitConfig::standard_recursion_config()),
        1 => ("zk", CircuitConfig::standard_recursion_zk_config()),
        _ => ("private-batch-config", wormhole_private_batch_circuit_config()),
    };
    let mut b = CircuitBuilder::<F, D>::new(cfg);
    let ts = b.add_virtual_targets(num_pis);
    let kind = (idx / 3) % 6;
    let mut desc = format!("{}|", cfg_name);
    match kind {
        0 => desc.push_str("unconstrained"),
        1 => {
            // the fake-leaf shape: a few 32-bit range checks
            for i in [1usize, 2, 3] {
                if i < num_pis {
                    b.range_check(ts[i], 32);
                }
            }
            desc.push_str("range-checks(1,2,3)");
        }
        2 => {
            let z = b.zero();
            let i = rng.usize(num_pis.min(4));
            let d = b.sub(ts[i], ts[i]);
            b.connect(d, z);
            b.range_check(ts[0], 32);
            desc.push_str("range-check(0)+tautology");
        }
        3 => {
            let h = b.hash_n_to_hash_no_pad::<plonky2::hash::poseidon2::Poseidon2Hash>(ts[..4.min(num_pis)].to_vec());
            let _ = h; // hashed but not bound: changes the gate set towards the real leaf's
            desc.push_str("poseidon2-gate-present");
        }
        _ => {
            // look-alike: the gate set of the real leaf (constants, public inputs, base-sum range
            // checks, arithmetic, Poseidon2) with almost no constraints on the statement, so that
            // the proof has the canonical leaf's shape (and, when padded alike, its common data)
            let h = b.hash_n_to_hash_no_pad::<plonky2::hash::poseidon2::Poseidon2Hash>(ts[..4.min(num_pis)].to_vec());
            let m = b.mul(h.elements[0], ts[0]);
            let c = b.constant(F::from_canonical_u64(7 + kind as u64));
            let s2 = b.add(m, c);
            b.range_check(ts[(kind + 1) % num_pis.min(4)], 32);
            let _ = s2;
            desc.push_str(if kind == 4 { "leaf-lookalike-A" } else { "leaf-lookalike-B" });
        }
    }
    b.register_public_inputs(&ts);
    // look-alikes are padded like the canonical child (2^8 rows for the leaf, 2^5..2^9 otherwise)
    let pad_bits = if kind >= 4 { 8 } else { [5usize, 8, 9][(idx / 18) % 3] };
    while b.num_gates() < (1 << pad_bits) - 8 {
        b.add_gate(plonky2::gates::noop::NoopGate, vec![]);
    }
    desc.push_str(&format!("|pad=2^{}", pad_bits));
    let data = b.build::<C>();
    // statements must satisfy the variant's own constraints: use small scalars
    let mut stmt = pis.to_vec();
    for i in [0usize, 1, 2, 3] {
        if i < stmt.len() {
            stmt[i] &= 0xFFFF_FFFF;
        }
    }
    let proof = prove_all_pis(&data, &ts, &stmt)?;
    Ok(Variant { name: desc, data, proof })
}

fn same_common(a: &CircuitData<F, C, D>, b: &CircuitData<F, C, D>) -> bool {
    a.common == b.common
}

pub fn run(ctx: &Ctx) {
    let n_variants = ctx.tier.pick(18usize, 108);
    ctx.set_rule(&format!(
        "programs: {} variant 21-public-input child circuits from a grammar (config in {{standard, zk, private-batch}} x constraints in {{none, fake-leaf range checks, tautology + range check, Poseidon2 gate present}} x padding to 2^5/2^8/2^9 rows), the real leaf circuit under the zk config, and at layer 2 private-batch circuits baked over a foreign leaf plus 29-input variants; each with a valid proof for a generated statement. \
         Each foreign proof is planted into the canonical-child batch circuit (PrivateBatchCircuit over the canonical leaf, N=1 and N=2 with a canonical proof in the other slot; PublicBatchCircuit over the canonical private batch, M=1) through the repo's own witness filler, bypassing the provers' preflight. Oracle: the filler returns Err (Result boundary) or the real prover fails or its proof does not verify; the canonical proof in the same slot proves and verifies (control). \
         Constructors: PrivateBatchCircuit::new / PublicBatchCircuit::new over child circuits with 0..60 (and 100, 1000) public inputs return Err without panicking unless the count is the expected layout. Non-trivial: foreign proof whose common data equals the canonical child's, or any foreign proof that reaches the prover; distinct by variant.",
        n_variants));
    ctx.assume("variants are a generated family, not all circuits; the verifier key is baked into the batch circuits as constants, so there are no verifier-key-shaped free targets to fill (a regression to virtual verifier data is caught by the repo's own recursive.rs tests)");
    let mut t = Tally::new();
    let mut rng = Rng::fork(ctx.seed, 1100);
    // ----- canonical layer-1 circuits -----
    let leaf = match WormholeCircuit::new(wormhole_leaf_circuit_config()) {
        Ok(c) => c.build_circuit(),
        Err(e) => {
            t.infra(e.to_string());
            ctx.merge(t);
            return;
        }
    };
    let hp = HonestParams { depth: Some(2), dummy: false, ..Default::default() };
    let (canon_leaf_proof, canon_pis) = match real_leaf_proof(&mut rng, &hp, |w| w.asset = 0) {
        Ok(x) => x,
        Err(e) => {
            t.infra(e);
            ctx.merge(t);
            return;
        }
    };
    let build_priv = |n: usize| -> Result<(PrivateBatchCircuitTargets, CircuitData<F, C, D>), String> {
        let c = PrivateBatchCircuit::new(wormhole_private_batch_circuit_config(), &leaf.common, &leaf.verifier_only, n).map_err(|e| e.to_string())?;
        let tg = c.targets();
        Ok((tg, c.build_circuit()))
    };
    let (tg1, priv1) = match build_priv(1) {
        Ok(x) => x,
        Err(e) => {
            t.infra(e);
            ctx.merge(t);
            return;
        }
    };
    let (tg2, priv2) = match build_priv(2) {
        Ok(x) => x,
        Err(e) => {
            t.infra(e);
            ctx.merge(t);
            return;
        }
    };
    // plant proofs into a private-batch circuit; returns "rejected-at-fill", "prove-failed", "verify-failed" or "ACCEPTED"
    let plant = |tg: &PrivateBatchCircuitTargets, data: &CircuitData<F, C, D>, proofs: &[Proof]| -> Result<(String, Option<Proof>), String> {
        let pre: Vec<[F; 4]> = (0..proofs.len()).map(|i| [F::from_canonical_u64(i as u64 + 1), F::ONE, F::TWO, F::ZERO]).collect();
        catch(|| {
            let mut pw = PartialWitness::new();
            if let Err(e) = fill_private_batch_witness(&mut pw, tg, proofs, &pre) {
                return (format!("rejected-at-fill: {}", e.to_string().chars().take(80).collect::<String>()), None);
            }
            match data.prove(pw) {
                Err(_) => ("prove-failed".to_string(), None),
                Ok(p) => match data.verify(p.clone()) {
                    Err(_) => ("verify-failed".to_string(), None),
                    Ok(()) => ("ACCEPTED".to_string(), Some(p)),
                },
            }
        })
    };
    // control
    t.eval();
    match plant(&tg1, &priv1, &[canon_leaf_proof.clone()]) {
        Ok((s, Some(_))) if s == "ACCEPTED" => t.class("control|canonical-leaf-in-N=1|accepted"),
        other => t.infra(format!("canonical leaf proof not accepted by the canonical private-batch circuit: {:?}", other.map(|x| x.0))),
    }
    // foreign leaves
    let mut variants: Vec<Variant> = vec![];
    for i in 0..n_variants {
        match gen_variant(&mut rng, 21, &canon_pis, i) {
            Ok(v) => variants.push(v),
            Err(e) => t.infra(format!("variant {} could not be proved: {}", i, e)),
        }
    }
    // the real leaf constraints under another config
    if let Ok(wc) = WormholeCircuit::new(CircuitConfig::standard_recursion_zk_config()) {
        let tg = wc.targets();
        let data = wc.build_circuit();
        let (w, db) = crate::props::leafapi::honest_with_digest(&mut rng, &hp);
        let inputs = crate::props::leafapi::to_inputs(&w, &db);
        let mut pw = PartialWitness::new();
        if wormhole_prover::fill_witness(&mut pw, &inputs, &tg).is_ok() {
            if let Ok(p) = data.prove(pw) {
                variants.push(Variant { name: "real-leaf-constraints|zk-config".into(), data, proof: p });
            }
        }
    }
    for (vi, v) in variants.iter().enumerate() {
        let shared = same_common(&v.data, &leaf);
        for (slot_desc, tg, data, proofs) in [("N=1", &tg1, &priv1, vec![v.proof.clone()]), ("N=2,slot0", &tg2, &priv2, vec![v.proof.clone(), canon_leaf_proof.clone()]), ("N=2,slot1", &tg2, &priv2, vec![canon_leaf_proof.clone(), v.proof.clone()])] {
            if slot_desc != "N=1" && vi % 4 != 0 {
                continue; // N=2 plants are sampled
            }
            t.eval();
            let case = json!({"kind": "c11", "layer": 1, "variant": v.name, "slot": slot_desc, "same_common_data_as_canonical": shared});
            match plant(tg, data, &proofs) {
                Err(p) => {
                    // a panic inside plonky2's witness writer / prover on a foreign shape: not an acceptance
                    t.class("layer1|panic-in-prover(not accepted)");
                    let _ = p;
                }
                Ok((s, accepted)) => {
                    t.class(&format!("layer1|{}|{}", if shared { "same-common" } else { "different-common" }, s.split(':').next().unwrap_or("")));
                    if accepted.is_some() {
                        t.violation("C11:private-batch-accepts-foreign-leaf", format!("the canonical-leaf private-batch circuit ({}) proves and verifies with a proof of a different child circuit ({})", slot_desc, v.name), case);
                    } else if !s.starts_with("rejected-at-fill") || shared {
                        t.nontrivial(fnv_str(&format!("{}|{}", v.name, slot_desc)));
                    }
                }
            }
        }
        if vi < 2 {
            t.sample(json!({"layer": 1, "variant": v.name, "same_common_data_as_canonical_leaf": shared}));
        }
    }
    // ----- layer 2 -----
    let canon_priv_proof = {
        let mut pw = PartialWitness::new();
        let pre = [[F::ONE, F::TWO, F::ZERO, F::ONE]];
        fill_private_batch_witness(&mut pw, &tg1, &[canon_leaf_proof.clone()], &pre).ok().and_then(|_| priv1.prove(pw).ok())
    };
    if let Some(canon_priv_proof) = canon_priv_proof {
        let pubc = PublicBatchCircuit::new(wormhole_public_batch_circuit_config(), priv1.common.clone(), &priv1.verifier_only, 1, 1).map(|c| (c.targets(), c.build_circuit()));
        match pubc {
            Err(e) => t.infra(e.to_string()),
            Ok((ptg, pdata)) => {
                let plant2 = |proof: &Proof| -> Result<String, String> {
                    catch(|| {
                        let mut pw = PartialWitness::new();
                        if fill_public_batch_witness(&mut pw, &ptg, &[proof.clone()], [F::ONE; 4]).is_err() {
                            return "rejected-at-fill".to_string();
                        }
                        match pdata.prove(pw) {
                            Err(_) => "prove-failed".to_string(),
                            Ok(p) => match pdata.verify(p) {
                                Err(_) => "verify-failed".to_string(),
                                Ok(()) => "ACCEPTED".to_string(),
                            },
                        }
                    })
                };
                t.eval();
                match plant2(&canon_priv_proof) {
                    Ok(s) if s == "ACCEPTED" => t.class("control|canonical-private-batch-in-M=1|accepted"),
                    other => t.infra(format!("canonical private-batch proof not accepted by the canonical public-batch circuit: {:?}", other)),
                }
                // private-batch circuits baked over a foreign leaf (same wrapper, other verifier key)
                let mut l2: Vec<(String, bool, Proof)> = vec![];
                for v in variants.iter().take(ctx.tier.pick(2, 8)) {
                    if v.data.common.num_public_inputs != 21 {
                        continue;
                    }
                    let Ok(c) = PrivateBatchCircuit::new(wormhole_private_batch_circuit_config(), &v.data.common, &v.data.verifier_only, 1) else { continue };
                    let tg = c.targets();
                    let data = c.build_circuit();
                    let mut pw = PartialWitness::new();
                    if fill_private_batch_witness(&mut pw, &tg, &[v.proof.clone()], &[[F::ONE; 4]]).is_err() {
                        continue;
                    }
                    if let Ok(p) = data.prove(pw) {
                        l2.push((format!("private-batch-over[{}]", v.name), data.common == priv1.common, p));
                    }
                }
                for i in 0..ctx.tier.pick(3, 12) {
                    if let Ok(v) = gen_variant(&mut rng, 29, &canon_priv_proof.public_inputs.iter().map(plonky2::field::types::PrimeField64::to_canonical_u64).collect::<Vec<_>>(), i) {
                        let sc = v.data.common == priv1.common;
                        l2.push((format!("29-input-variant[{}]", v.name), sc, v.proof));
                    }
                }
                for (name, shared, proof) in &l2 {
                    t.eval();
                    let case = json!({"kind": "c11", "layer": 2, "variant": name, "same_common_data_as_canonical": shared});
                    match plant2(proof) {
                        Err(_) => t.class("layer2|panic-in-prover(not accepted)"),
                        Ok(s) => {
                            t.class(&format!("layer2|{}|{}", if *shared { "same-common" } else { "different-common" }, s));
                            if s == "ACCEPTED" {
                                t.violation("C11:public-batch-accepts-foreign-private-batch", format!("the canonical public-batch circuit proves and verifies with a proof of a different private-batch circuit ({})", name), case);
                            } else if s != "rejected-at-fill" || *shared {
                                t.nontrivial(fnv_str(name));
                            }
                        }
                    }
                }
                if let Some((name, shared, _)) = l2.first() {
                    t.sample(json!({"layer": 2, "variant": name, "same_common_data_as_canonical_private_batch": shared}));
                }
            }
        }
    } else {
        t.infra("could not prove the canonical private batch for layer 2".to_string());
    }
    // ----- constructors with the wrong child public-input count -----
    let mut counts: Vec<usize> = (0..=60).collect();
    counts.extend_from_slice(&[100, 1000]);
    for k in counts {
        let (pt, _) = passthrough(k.max(1).min(1000));
        if pt.common.num_public_inputs != k && k != 0 {
            continue;
        }
        let kk = pt.common.num_public_inputs;
        t.eval();
        let r = catch(|| PrivateBatchCircuit::new(wormhole_private_batch_circuit_config(), &pt.common, &pt.verifier_only, 1).is_ok());
        t.class("ctor|PrivateBatchCircuit::new|child-pi-count");
        match r {
            Err(p) => t.violation("C11:PrivateBatchCircuit::new:panics-on-pi-count", format!("PrivateBatchCircuit::new panicked for a child circuit with {} public inputs: {}", kk, p), json!({"kind": "c11_ctor", "k": kk})),
            Ok(ok) => {
                if ok != (kk == 21) {
                    t.violation("C11:PrivateBatchCircuit::new:pi-count", format!("PrivateBatchCircuit::new returned ok={} for a child circuit with {} public inputs", ok, kk), json!({"kind": "c11_ctor", "k": kk}));
                }
            }
        }
        for n in [1usize, 2] {
            t.eval();
            let r = catch(|| PublicBatchCircuit::new(wormhole_public_batch_circuit_config(), pt.common.clone(), &pt.verifier_only, 1, n).is_ok());
            match r {
                Err(p) => t.violation("C11:PublicBatchCircuit::new:panics-on-pi-count", format!("PublicBatchCircuit::new panicked for an inner circuit with {} public inputs (n={}): {}", kk, n, p), json!({"kind": "c11_ctor", "k": kk, "n": n})),
                Ok(ok) => {
                    if ok != (kk == 21 * n + 8) {
                        t.violation("C11:PublicBatchCircuit::new:pi-count", format!("PublicBatchCircuit::new returned ok={} for an inner circuit with {} public inputs and n={}", ok, kk, n), json!({"kind": "c11_ctor", "k": kk, "n": n}));
                    }
                }
            }
        }
        if kk == 20 || kk == 22 || kk == 28 || kk == 30 || kk == 0 {
            t.nontrivial(fnv_str(&format!("ctor{}", kk)));
        }
    }
    ctx.merge(t);
}
