//! C32 — Debug never reveals private data (rendering search with a control rendering);
//! C33 — secret material is scrubbed before its memory is released (E6: the harness's
//! scanning allocator, armed per thread for generated sequences of secret-handling calls).

use plonky2::field::types::{Field, PrimeField64};
use serde_json::json;
use wormhole_circuit::block_header::header::HeaderInputs;
use wormhole_circuit::block_header::BlockHeader;
use wormhole_circuit::inputs::{CircuitInputs, PrivateCircuitInputs, PublicCircuitInputs};
use wormhole_circuit::nullifier::{Nullifier, NULLIFIER_SALT};
use wormhole_circuit::sensitive::{Secret, SensitiveFelts};
use wormhole_circuit::unspendable_account::{UnspendableAccount, UNSPENDABLE_SALT};
use wormhole_circuit::zk_merkle_proof::{ZkLeafData, ZkMerkleProofData};
use wormhole_prover::WormholeProver;
use zk_circuits_common::circuit::{wormhole_leaf_circuit_config, F};
use zk_circuits_common::utils::{bytes_to_digest, digest_to_bytes, string_to_felts, u64_to_felts, BytesDigest};

use crate::leaf::HonestParams;
use crate::props::leafapi::{honest_with_digest, to_inputs};
use crate::refm::{self, P};
use crate::util::alloc;
use crate::util::rng::Rng;
use crate::util::{catch, fnv, Ctx, Tally};

// =============================================================== C32 =========

#[derive(Clone)]
struct Needle {
    text: String,
    what: &'static str,
}

fn significant(s: &str) -> bool {
    // at least 5 characters and not a run of one character (e.g. "00000")
    s.len() >= 5 && s.chars().collect::<std::collections::HashSet<_>>().len() >= 3
}

fn push_num(out: &mut Vec<Needle>, v: u64, what: &'static str) {
    let d = v.to_string();
    if significant(&d) {
        out.push(Needle { text: d, what });
    }
    let h = format!("{:x}", v);
    if significant(&h) && h.len() >= 6 {
        out.push(Needle { text: h.clone(), what });
        out.push(Needle { text: h.to_uppercase(), what });
    }
}

fn push_bytes(out: &mut Vec<Needle>, b: &[u8], what: &'static str) {
    // whole string, every 8-byte and 4-byte chunk, both endiannesses, hex upper/lower, decimal
    if b.len() >= 4 {
        let h = hex::encode(b);
        if significant(&h) {
            out.push(Needle { text: h.clone(), what });
            out.push(Needle { text: h.to_uppercase(), what });
        }
    }
    for c in b.chunks(8) {
        if c.len() == 8 {
            let le = u64::from_le_bytes(c.try_into().unwrap());
            let be = u64::from_be_bytes(c.try_into().unwrap());
            push_num(out, le, what);
            push_num(out, be, what);
        }
    }
    for c in b.chunks(4) {
        if c.len() == 4 {
            let le = u32::from_le_bytes(c.try_into().unwrap()) as u64;
            let be = u32::from_be_bytes(c.try_into().unwrap()) as u64;
            push_num(out, le, what);
            push_num(out, be, what);
        }
    }
}

fn private_needles(inp: &CircuitInputs) -> Vec<Needle> {
    let p = &inp.private;
    let mut out = vec![];
    push_bytes(&mut out, p.secret.as_bytes(), "secret");
    push_bytes(&mut out, &p.unspendable_account[..], "deposit account");
    push_num(&mut out, p.transfer_count, "transfer count");
    push_num(&mut out, p.transfer_count >> 32, "transfer count (high limb)");
    push_num(&mut out, p.transfer_count & 0xFFFF_FFFF, "transfer count (low limb)");
    push_num(&mut out, p.input_amount as u64, "input amount");
    push_bytes(&mut out, &p.digest[..], "digest logs");
    // digest-log felt encoding: 4-byte little-endian words (+ terminator word)
    for w in refm::bytes_to_felts_ref(&p.digest) {
        push_num(&mut out, w, "digest logs (felt)");
    }
    for level in &p.zk_merkle_siblings {
        for s in level {
            push_bytes(&mut out, s, "merkle sibling");
        }
    }
    // positions are single digits: too short to be searched meaningfully (counted as skipped)
    out
}

/// Renderings of every type the property names, for one input. `prover` renders the
/// committed prover too (expensive).
fn renderings(inp: &CircuitInputs, prover: bool) -> Vec<(&'static str, String)> {
    let mut v: Vec<(&'static str, String)> = vec![];
    let mut both = |name: &'static str, plain: String, pretty: String| {
        v.push((name, plain));
        v.push((name, pretty));
    };
    both("PrivateCircuitInputs", format!("{:?}", inp.private), format!("{:#?}", inp.private));
    both("CircuitInputs", format!("{:?}", inp), format!("{:#?}", inp));
    let n = Nullifier::from(inp);
    both("Nullifier", format!("{:?}", n), format!("{:#?}", n));
    let n2 = Nullifier::from_preimage(inp.private.secret.expose_digest(), inp.private.transfer_count);
    both("Nullifier(from_preimage)", format!("{:?}", n2), format!("{:#?}", n2));
    let ua = UnspendableAccount::from(inp);
    both("UnspendableAccount", format!("{:?}", ua), format!("{:#?}", ua));
    let ua2 = UnspendableAccount::from_secret(inp.private.secret.expose_digest());
    // from_secret derives the deposit account itself: it is the account id the type redacts
    both("UnspendableAccount(from_secret)", format!("{:?}", ua2), format!("{:#?}", ua2));
    let leaf = ZkLeafData::new(*inp.private.unspendable_account, inp.private.transfer_count, inp.public.asset_id, inp.private.input_amount, inp.public.output_amount_1, inp.public.output_amount_2, inp.public.volume_fee_bps);
    both("ZkLeafData", format!("{:?}", leaf), format!("{:#?}", leaf));
    if let Ok(m) = ZkMerkleProofData::try_from(inp) {
        both("ZkMerkleProofData", format!("{:?}", m), format!("{:#?}", m));
    }
    if let Ok(h) = HeaderInputs::try_from(inp) {
        both("HeaderInputs", format!("{:?}", h), format!("{:#?}", h));
    }
    if let Ok(b) = BlockHeader::try_from(inp) {
        both("BlockHeader", format!("{:?}", b), format!("{:#?}", b));
    }
    if prover {
        if let Ok(p) = WormholeProver::new(wormhole_leaf_circuit_config()) {
            if let Ok(c) = p.commit(inp) {
                both("WormholeProver(committed)", format!("{:?}", c), format!("{:#?}", c));
            }
        }
    }
    v
}

fn c32_case(rng: &mut Rng, t: &mut Tally, prover: bool, sample: bool) {
    // depth 0..=16 (every depth; shallow ones more often)
    let depth = if rng.chance(1, 3) { rng.usize(17) } else { rng.usize(7) };
    let hp = HonestParams { depth: Some(depth), dummy: false, ..Default::default() };
    let (mut w, db) = honest_with_digest(rng, &hp);
    // transfer counts and amounts with >= 5 significant digits
    w.null_tc = [rng.u32() as u64 | 0x1000_0000, rng.u32() as u64 | 0x1000_0000];
    w.leaf_tc = w.null_tc;
    w.input = (rng.u32() as u64) | 0x1000_0000;
    w.out1 = 1;
    w.out2 = 0;
    w.fee = 0;
    w.rebind_all();
    // control: identical public fields and public-looking header fields, different private fields
    let (mut w2, db2) = honest_with_digest(rng, &hp);
    w2.null_tc = [rng.u32() as u64 | 0x1000_0000, rng.u32() as u64 | 0x1000_0000];
    w2.leaf_tc = w2.null_tc;
    w2.input = (rng.u32() as u64) | 0x1000_0000;
    c32_render_and_search(&w, &db, &w2, &db2, t, prover, sample, "honest");
    // The Debug impls are total functions of the data types: they also render witnesses no prover would
    // accept. Variants keep the private values and take the public/fee-relevant fields through their
    // classes (fee 0 / 1 / max / out of range, outputs zero / honest / above the input / u32::MAX,
    // dummy block hash, small transfer-count limbs, input equal to an output), without re-binding hashes.
    for _ in 0..3 {
        let mut v = w.clone();
        let mut label = String::new();
        v.fee = match rng.below(6) {
            0 => 0,
            1 => 1,
            2 => 10,
            3 => 9_999,
            4 => 10_000,
            _ => 10_001 + rng.below(50_000),
        };
        label.push_str(&format!("fee={}", if v.fee > 10_000 { ">max".to_string() } else { v.fee.to_string() }));
        match rng.below(6) {
            0 => {
                v.out1 = 0;
                v.out2 = 0;
                label.push_str("|outputs=0");
            }
            1 => {
                // exactly at the fee bound
                let bound = v.input * (10_000u64.saturating_sub(v.fee.min(10_000))) / 10_000;
                v.out1 = bound.min(u32::MAX as u64);
                v.out2 = 0;
                label.push_str("|outputs=at-bound");
            }
            2 => {
                v.out1 = (v.input + 1 + rng.below(1 << 20)).min(u32::MAX as u64);
                v.out2 = rng.below(1 << 10);
                label.push_str("|outputs>input");
            }
            3 => {
                v.out1 = u32::MAX as u64;
                v.out2 = u32::MAX as u64;
                label.push_str("|outputs=max");
            }
            4 => {
                v.out1 = rng.below(v.input.max(2));
                v.out2 = rng.below(v.input.max(2));
                label.push_str("|outputs=random");
            }
            _ => {
                v.out1 = v.input / 2;
                v.out2 = v.input - v.input / 2;
                label.push_str("|outputs=split-of-input");
            }
        }
        if rng.chance(1, 4) {
            v.block_hash = [0; 4];
            label.push_str("|dummy-block");
        }
        if rng.chance(1, 4) {
            v.asset = rng.u32() as u64;
            label.push_str("|asset");
        }
        if rng.chance(1, 4) {
            // positions/siblings inconsistent with the root (renderers must not care)
            v.root_hash = [rng.felt(), rng.felt(), rng.felt(), rng.felt()];
            label.push_str("|foreign-root");
        }
        let mut c = w2.clone();
        c.input = (rng.u32() as u64) | 0x1000_0000;
        c32_render_and_search(&v, &db, &c, &db2, t, false, false, &label);
    }
    t.nontrivial(fnv(&refm::d4_to_bytes(&w.null_secret)));
}

/// Renders every type for `w` and searches the private needles; `w2` supplies the control rendering
/// (same public fields, different private ones).
#[allow(clippy::too_many_arguments)]
fn c32_render_and_search(w: &crate::leaf::LeafW, db: &[u8; 110], w2: &crate::leaf::LeafW, db2: &[u8; 110], t: &mut Tally, prover: bool, sample: bool, label: &str) {
    let inp = to_inputs(w, db);
    let mut ctl = to_inputs(w2, db2);
    ctl.public = inp.public.clone();
    ctl.private.parent_hash = inp.private.parent_hash;
    ctl.private.state_root = inp.private.state_root;
    ctl.private.extrinsics_root = inp.private.extrinsics_root;
    ctl.private.zk_tree_root = inp.private.zk_tree_root;
    let needles = private_needles(&inp);
    let rend = match catch(|| renderings(&inp, prover)) {
        Ok(r) => r,
        Err(p) => {
            t.violation("C32:debug-panics", format!("a Debug rendering panicked ({}): {}", label, p), json!({"kind": "c32", "variant": label}));
            return;
        }
    };
    let ctl_rend = catch(|| renderings(&ctl, false)).unwrap_or_default();
    let ctl_all: String = ctl_rend.iter().map(|(_, s)| s.as_str()).collect::<Vec<_>>().join("\n");
    t.evals(rend.len() as u64);
    t.class(&format!("variant|{}", label.split('|').take(2).collect::<Vec<_>>().join("|")));
    t.count("needles searched", (needles.len() * rend.len()) as u64);
    for (ty, text) in &rend {
        t.class(&format!("rendered|{}", ty));
        for nd in &needles {
            if text.contains(&nd.text) {
                if ctl_all.contains(&nd.text) {
                    t.count("needle also present in the control rendering (coincidence with public data, ignored)", 1);
                    continue;
                }
                t.violation(
                    format!("C32:{}:{}", ty.split('(').next().unwrap_or(ty), nd.what),
                    format!("Debug rendering of {} contains the {} (as '{}') [{}]", ty, nd.what, nd.text, label),
                    json!({"kind": "c32", "type": ty, "leaked": nd.what, "needle": nd.text, "variant": label, "rendering_excerpt": excerpt(text, &nd.text)}),
                );
            }
        }
    }
    if sample {
        t.sample(json!({"types_rendered": rend.iter().map(|r| r.0).collect::<std::collections::BTreeSet<_>>(), "needles": needles.len(), "example_rendering": rend.first().map(|r| r.1.chars().take(300).collect::<String>())}));
    }
}

fn excerpt(text: &str, needle: &str) -> String {
    match text.find(needle) {
        Some(i) => {
            let a = text[..i].char_indices().rev().nth(60).map(|x| x.0).unwrap_or(0);
            let b = (i + needle.len() + 60).min(text.len());
            let b = (b..=text.len()).find(|k| text.is_char_boundary(*k)).unwrap_or(text.len());
            text[a..b].to_string()
        }
        None => String::new(),
    }
}

pub fn run_c32(ctx: &Ctx) {
    let n = ctx.tier.pick(6_000usize, 200_000);
    let n_prover = ctx.tier.pick(96usize, 2_000);
    ctx.set_rule(&format!(
        "{} generated inputs (random secrets/accounts/siblings, transfer counts, input amounts and digest words with >= 5 significant digits), {} of them also through a committed WormholeProver; rendered with {{:?}} and {{:#?}} for PrivateCircuitInputs, CircuitInputs, Nullifier (from inputs and from_preimage), UnspendableAccount (from inputs and from_secret), ZkLeafData, ZkMerkleProofData, HeaderInputs, BlockHeader, committed WormholeProver. \
         Needles: lower/upper hex of the 32 bytes and of every 8-/4-byte chunk in both endiannesses, decimal of every limb, of the u64/u32 values and of every felt of the digest-log encoding. A needle counts only if it is absent from a control rendering that shares the public fields and differs in all private ones. \
         Each input is rendered as generated (honest) and in 3 unconstrained variants that keep the private values and move fee (0, 1, 10, 9999, 10000, out of range), outputs (zero, at the fee bound, above the input, u32::MAX, random, a split of the input), dummy block hash, asset and tree root through their classes — Debug impls are total over the data types, not only over provable witnesses. Oracle: no private needle occurs in any rendering. Non-trivial: every case (all private values have >= 5 significant digits / non-trivial bytes); needles shorter than 5 characters (positions, zero words) are skipped.",
        n, n_prover));
    ctx.assume("fields the impls keep visible on purpose (parent hash, state/extrinsics/tree roots, depth, public inputs, the nullifier hash) are never needles");
    let workers = ctx.n_workers();
    ctx.par(workers, |wi, t| {
        let mut rng = Rng::fork(ctx.seed, wi as u64);
        for c in 0..n.div_ceil(workers) {
            c32_case(&mut rng, t, c < n_prover.div_ceil(workers), c < 1);
        }
    });
}

// =============================================================== C33 =========

const RATE: usize = 8;

fn felts_le(f: &[F]) -> Vec<u8> {
    f.iter().flat_map(|x| x.to_canonical_u64().to_le_bytes()).collect()
}

/// The two documented upstream `pad10_to_rate` buffers for (secret, transfer count).
fn upstream_pads(secret: BytesDigest, tc: u64) -> [Vec<u8>; 2] {
    let sf = bytes_to_digest(secret);
    let mut a: Vec<F> = string_to_felts(NULLIFIER_SALT).unwrap();
    a.extend(sf);
    a.extend(u64_to_felts(tc));
    a.push(F::ONE);
    a.resize(2 * RATE, F::ZERO);
    let mut b: Vec<F> = string_to_felts(UNSPENDABLE_SALT).unwrap();
    b.extend(sf);
    b.push(F::ONE);
    b.resize(RATE, F::ZERO);
    [felts_le(&a), felts_le(&b)]
}

enum Held {
    Secret(Secret),
    Null(Nullifier),
    Acct(UnspendableAccount),
    Bytes(zeroize::Zeroizing<Vec<u8>>),
    Felts(SensitiveFelts),
    Inputs(Box<CircuitInputs>),
    Priv(Box<PrivateCircuitInputs>),
}

fn mk_inputs(secret: &[u8; 32], tc: u64) -> CircuitInputs {
    CircuitInputs {
        private: PrivateCircuitInputs {
            secret: Secret::try_from(*secret).unwrap(),
            transfer_count: tc,
            unspendable_account: BytesDigest::try_from([0x21u8; 32]).unwrap(),
            parent_hash: BytesDigest::try_from([5u8; 32]).unwrap(),
            state_root: BytesDigest::try_from([3u8; 32]).unwrap(),
            extrinsics_root: BytesDigest::try_from([4u8; 32]).unwrap(),
            digest: [0x6E; 110],
            input_amount: 1000,
            zk_tree_root: [0u8; 32],
            zk_merkle_siblings: vec![],
            zk_merkle_positions: vec![],
        },
        public: PublicCircuitInputs {
            asset_id: 0,
            output_amount_1: 900,
            output_amount_2: 99,
            volume_fee_bps: 10,
            nullifier: BytesDigest::try_from([1u8; 32]).unwrap(),
            block_hash: BytesDigest::try_from([0u8; 32]).unwrap(),
            exit_account_1: BytesDigest::try_from([2u8; 32]).unwrap(),
            exit_account_2: BytesDigest::try_from([3u8; 32]).unwrap(),
            block_number: 1,
        },
    }
}

const N_OPS: u64 = 29;

fn op_name(op: u64) -> &'static str {
    match op {
        0 => "Secret::new(valid)+buffer-zeroed",
        1 => "Secret::new(invalid)+buffer-zeroed",
        2 => "Secret::from(BytesDigest)",
        3 => "Secret::from(Digest)",
        4 => "Secret::try_from",
        5 => "expose_digest",
        6 => "expose_felts",
        7 => "Nullifier::new",
        8 => "Nullifier::from_preimage",
        9 => "Nullifier::from(&inputs)",
        10 => "Nullifier::to_bytes",
        11 => "Nullifier::from_bytes",
        12 => "Nullifier::to_field_elements",
        13 => "Nullifier::from_field_elements",
        14 => "UnspendableAccount::new",
        15 => "UnspendableAccount::from_secret",
        16 => "UnspendableAccount::from(&inputs)",
        17 => "UnspendableAccount::to_bytes",
        18 => "UnspendableAccount::from_bytes",
        19 => "UnspendableAccount::to_field_elements",
        20 => "UnspendableAccount::from_field_elements",
        21 => "build PrivateCircuitInputs / CircuitInputs",
        22 => "drop one held object",
        24 => "Nullifier::from_bytes(malformed outside the secret)",
        25 => "Nullifier::from_field_elements(malformed outside the secret)",
        26 => "UnspendableAccount::from_bytes(malformed outside the secret)",
        27 => "UnspendableAccount::from_field_elements(malformed outside the secret)",
        28 => "SensitiveFelts::new(vector with spare capacity)",
        _ => "drop all held objects",
    }
}

/// Runs one sequence of secret-handling operations under the scanning allocator.
/// Returns (unexempted hits as (size, offset), buffer-not-zeroed flag, panic).
fn run_sequence(secret: [u8; 32], tc: u64, ops: &[u64], order_seed: u64) -> (Vec<(usize, usize)>, bool, Option<String>) {
    let digest = BytesDigest::try_from(secret).unwrap();
    let pads = upstream_pads(digest, tc);
    let pad_fps: Vec<(usize, u64)> = pads.iter().map(|p| (p.len(), fnv(p))).collect();
    let mut not_zeroed = false;
    // holder with full capacity up front: the harness itself must never free a block holding the secret
    let mut held: Vec<Option<Held>> = Vec::with_capacity(2 * ops.len() + 8);
    let nz = &mut not_zeroed;
    let (res, rep) = alloc::scan_frees(secret, &pad_fps, || {
        catch(|| {
            let mut rs = Rng::new(order_seed);
            for &op in ops {
                match op {
                    0 => {
                        let mut buf = secret;
                        let s = Secret::new(&mut buf);
                        if buf != [0u8; 32] {
                            *nz = true;
                        }
                        if let Ok(s) = s {
                            held.push(Some(Held::Secret(s)));
                        }
                    }
                    1 => {
                        let mut buf = secret;
                        buf[24..32].copy_from_slice(&u64::MAX.to_le_bytes()); // limb >= p
                        let s = Secret::new(&mut buf);
                        if buf != [0u8; 32] || s.is_ok() {
                            *nz = true;
                        }
                    }
                    2 => held.push(Some(Held::Secret(Secret::from(digest)))),
                    3 => held.push(Some(Held::Secret(Secret::from(bytes_to_digest(digest))))),
                    4 => {
                        if let Ok(s) = Secret::try_from(secret) {
                            held.push(Some(Held::Secret(s)));
                        }
                    }
                    5 | 6 => {
                        for h in held.iter().flatten() {
                            if let Held::Secret(s) = h {
                                if op == 5 {
                                    std::hint::black_box(s.expose_digest());
                                } else {
                                    std::hint::black_box(s.expose_felts());
                                }
                                break;
                            }
                        }
                    }
                    7 => held.push(Some(Held::Null(Nullifier::new(BytesDigest::try_from([0x11u8; 32]).unwrap(), digest, tc)))),
                    8 => held.push(Some(Held::Null(Nullifier::from_preimage(digest, tc)))),
                    9 | 16 | 21 => {
                        let inp = mk_inputs(&secret, tc);
                        if op == 9 {
                            held.push(Some(Held::Null(Nullifier::from(&inp))));
                        } else if op == 16 {
                            held.push(Some(Held::Acct(UnspendableAccount::from(&inp))));
                        }
                        if rs.bool() {
                            held.push(Some(Held::Inputs(Box::new(inp))));
                        } else {
                            let CircuitInputs { private, public: _ } = inp;
                            held.push(Some(Held::Priv(Box::new(private))));
                        }
                    }
                    10 | 12 => {
                        let mut new = None;
                        for h in held.iter().flatten() {
                            if let Held::Null(n) = h {
                                new = Some(if op == 10 { Held::Bytes(n.to_bytes()) } else { Held::Felts(n.to_field_elements()) });
                                break;
                            }
                        }
                        if let Some(x) = new {
                            held.push(Some(x));
                        }
                    }
                    11 | 18 => {
                        let mut new = None;
                        for h in held.iter().flatten() {
                            if let Held::Bytes(b) = h {
                                let r = if op == 11 { Nullifier::from_bytes(b).ok().map(Held::Null) } else { UnspendableAccount::from_bytes(b).ok().map(Held::Acct) };
                                if r.is_some() {
                                    new = r;
                                    break;
                                }
                            }
                        }
                        if let Some(x) = new {
                            held.push(Some(x));
                        }
                    }
                    13 | 20 => {
                        let mut new = None;
                        for h in held.iter().flatten() {
                            if let Held::Felts(f) = h {
                                let r = if op == 13 { Nullifier::from_field_elements(f.as_slice()).ok().map(Held::Null) } else { UnspendableAccount::from_field_elements(f.as_slice()).ok().map(Held::Acct) };
                                if r.is_some() {
                                    new = r;
                                    break;
                                }
                            }
                        }
                        if let Some(x) = new {
                            held.push(Some(x));
                        }
                    }
                    14 => held.push(Some(Held::Acct(UnspendableAccount::new(BytesDigest::try_from([0x22u8; 32]).unwrap(), digest)))),
                    15 => held.push(Some(Held::Acct(UnspendableAccount::from_secret(digest)))),
                    17 | 19 => {
                        let mut new = None;
                        for h in held.iter().flatten() {
                            if let Held::Acct(a) = h {
                                new = Some(if op == 17 { Held::Bytes(a.to_bytes()) } else { Held::Felts(a.to_field_elements()) });
                                break;
                            }
                        }
                        if let Some(x) = new {
                            held.push(Some(x));
                        }
                    }
                    24 | 26 => {
                        // decode error paths: the repo's own serialisation, damaged *outside* the secret
                        // (length +-k, or one 8-byte limb before/after it made non-canonical), so that a
                        // decoder that has already copied the secret fails afterwards
                        let ser: zeroize::Zeroizing<Vec<u8>> = if op == 24 { Nullifier::from_preimage(digest, tc).to_bytes() } else { UnspendableAccount::from_secret(digest).to_bytes() };
                        let mut m: zeroize::Zeroizing<Vec<u8>> = zeroize::Zeroizing::new(Vec::with_capacity(ser.len() + 16));
                        m.extend_from_slice(&ser);
                        let pos = ser.windows(32).position(|w| w == secret).unwrap_or(usize::MAX);
                        match rs.below(4) {
                            0 => {
                                let k = 1 + rs.usize(8);
                                let l = m.len().saturating_sub(k);
                                for b in m[l..].iter_mut() {
                                    *b = 0;
                                }
                                m.truncate(l);
                            }
                            1 => {
                                for _ in 0..1 + rs.usize(8) {
                                    m.push(rs.below(256) as u8);
                                }
                            }
                            _ => {
                                let limbs: Vec<usize> = (0..m.len() / 8).filter(|i| pos == usize::MAX || i * 8 + 8 <= pos || i * 8 >= pos + 32).collect();
                                if !limbs.is_empty() {
                                    let i = limbs[rs.usize(limbs.len())];
                                    let v: u64 = match rs.below(3) {
                                        0 => u64::MAX,
                                        1 => P,
                                        _ => 1 << 32,
                                    };
                                    m[i * 8..i * 8 + 8].copy_from_slice(&v.to_le_bytes());
                                }
                            }
                        }
                        let r = if op == 24 { Nullifier::from_bytes(&m).ok().map(Held::Null) } else { UnspendableAccount::from_bytes(&m).ok().map(Held::Acct) };
                        if let Some(x) = r {
                            held.push(Some(x));
                        }
                    }
                    25 | 27 => {
                        let ser = if op == 25 { Nullifier::from_preimage(digest, tc).to_field_elements() } else { UnspendableAccount::from_secret(digest).to_field_elements() };
                        let sf = bytes_to_digest(digest);
                        let mut m: Vec<F> = Vec::with_capacity(ser.as_slice().len() + 4);
                        m.extend_from_slice(ser.as_slice());
                        let pos = m.windows(4).position(|w| w == sf).unwrap_or(usize::MAX);
                        match rs.below(4) {
                            0 => {
                                if let Some(last) = m.last_mut() {
                                    *last = F::ZERO;
                                }
                                m.pop();
                            }
                            1 => m.push(F::from_canonical_u64(rs.below(P))),
                            _ => {
                                let idx: Vec<usize> = (0..m.len()).filter(|i| pos == usize::MAX || *i < pos || *i >= pos + 4).collect();
                                if !idx.is_empty() {
                                    let i = idx[rs.usize(idx.len())];
                                    m[i] = F::from_canonical_u64(match rs.below(3) {
                                        0 => 1 << 32,
                                        1 => P - 1,
                                        _ => (1 << 32) + rs.below(1 << 20),
                                    });
                                }
                            }
                        }
                        let r = if op == 25 { Nullifier::from_field_elements(&m).ok().map(Held::Null) } else { UnspendableAccount::from_field_elements(&m).ok().map(Held::Acct) };
                        if let Some(x) = r {
                            held.push(Some(x));
                        }
                        // the harness's own copy is scrubbed (whole capacity) before it is released
                        unsafe {
                            let p = m.as_mut_ptr();
                            for i in 0..m.capacity() {
                                std::ptr::write_volatile(p.add(i), F::ZERO);
                            }
                        }
                        drop(m);
                    }
                    28 => {
                        // the public wrapper for secret felts, handed a vector whose capacity exceeds its length
                        // (a wrapper that shrinks or re-boxes the buffer releases the original block unscrubbed)
                        let sf = bytes_to_digest(digest);
                        let extra = [0usize, 1, 4, 12, 60][rs.usize(5)];
                        let mut v: Vec<F> = Vec::with_capacity(4 + 2 + extra);
                        v.extend_from_slice(&sf);
                        if rs.bool() {
                            v.extend(u64_to_felts(tc));
                        }
                        held.push(Some(Held::Felts(SensitiveFelts::new(v))));
                    }
                    22 => {
                        let live: Vec<usize> = held.iter().enumerate().filter(|(_, h)| h.is_some()).map(|(i, _)| i).collect();
                        if !live.is_empty() {
                            let i = live[rs.usize(live.len())];
                            held[i] = None;
                        }
                    }
                    _ => {
                        // drop everything in a generated order
                        let mut idx: Vec<usize> = (0..held.len()).collect();
                        rs.shuffle(&mut idx);
                        for i in idx {
                            held[i] = None;
                        }
                    }
                }
                if held.len() + 3 >= held.capacity() {
                    break; // never let the holder reallocate
                }
            }
            // final drops in generated order
            let mut idx: Vec<usize> = (0..held.len()).collect();
            rs.shuffle(&mut idx);
            for i in idx {
                held[i] = None;
            }
        })
    });
    drop(held);
    let hits: Vec<(usize, usize)> = rep.hits.iter().map(|h| (h.size, h.offset)).collect();
    if std::env::var("QPV_C33_DEBUG").is_ok() {
        for h in rep.hits.iter() {
            eprintln!("c33-debug: freed block size={} offset={} head={}", h.size, h.offset, hex::encode(&h.head[..h.size.min(64)]));
        }
    }
    (hits, not_zeroed, res.err())
}

fn derive_secret(seed: u64) -> [u8; 32] {
    // fixed mixing of the generated seed into a stack array; at least two high-entropy limbs so
    // that the 32-byte needle is distinctive; special limbs (0, p-1, repeats) in the others
    let mut x = seed;
    let mut limbs = [0u64; 4];
    for l in limbs.iter_mut() {
        loop {
            let v = crate::util::rng::splitmix(&mut x);
            if v < P && v > (1 << 40) {
                *l = v;
                break;
            }
        }
    }
    match seed % 5 {
        0 => limbs[1] = 0,
        1 => limbs[3] = P - 1,
        2 => limbs[2] = limbs[0],
        3 => {
            limbs[0] = P - 1;
            limbs[3] = 0;
        }
        _ => {}
    }
    let mut out = [0u8; 32];
    for i in 0..4 {
        out[i * 8..i * 8 + 8].copy_from_slice(&limbs[i].to_le_bytes());
    }
    out
}

pub fn run_c33(ctx: &Ctx) {
    let n = ctx.tier.pick(400_000usize, 12_000_000);
    ctx.set_rule(&format!(
        "{} generated sequences (length 1..30) over the secret-handling operations: Secret::{{new (valid and invalid, checking the caller's buffer is zeroed), from(BytesDigest), from(Digest), try_from, expose_digest, expose_felts, drop}}, Nullifier::{{new, from_preimage, from(&inputs), to_bytes, from_bytes, to_field_elements, from_field_elements, drop}}, the same eight for UnspendableAccount, SensitiveFelts::new on a vector with spare capacity, the four decoders on encodings damaged outside the secret (length +-k, a limb before or after the secret made non-canonical / above 2^32: error paths taken after the secret has been copied), building and dropping PrivateCircuitInputs/CircuitInputs, with generated drop order; \
         the secret is derived inside the case from a generated seed into a stack array (patterns with a zero limb, a p-1 limb, repeated limbs). The harness allocator, armed on the executing thread, scans every block that thread frees (or reallocates) for the 32-byte image (byte form = little-endian felt form). \
         Oracle: no freed block contains the image unless it is byte-identical to one of the two upstream pad10_to_rate buffers reconstructed for this (secret, transfer count); Secret::new leaves the caller's buffer all-zero for valid and invalid input. Non-trivial: sequence containing a serialisation or hashing call; distinct by (secret seed, op sequence).",
        n));
    ctx.assume("fill_targets / prover paths are excluded exactly as the repo's own scope note excludes them (plonky2-owned memory)");
    let workers = ctx.n_workers();
    ctx.par(workers, |wi, t| {
        let mut rng = Rng::fork(ctx.seed, wi as u64);
        let mut blocks = 0u64;
        for c in 0..n.div_ceil(workers) {
            let seed = rng.u64();
            let secret = derive_secret(seed);
            let tc = match rng.below(4) {
                0 => 0,
                1 => u64::MAX,
                _ => rng.u64() >> rng.below(40),
            };
            let len = 1 + rng.usize(30);
            let ops: Vec<u64> = (0..len).map(|_| rng.below(N_OPS)).collect();
            let order_seed = rng.u64();
            let (hits, not_zeroed, panic) = run_sequence(secret, tc, &ops, order_seed);
            t.eval();
            blocks += 1;
            let case = json!({"kind": "c33", "secret_seed": seed, "transfer_count": tc, "ops": ops, "order_seed": order_seed, "op_names": ops.iter().map(|o| op_name(*o)).collect::<Vec<_>>()});
            if let Some(p) = panic {
                t.violation("C33:panic", format!("a secret-handling operation panicked: {}", p), case.clone());
            }
            if not_zeroed {
                t.violation("C33:Secret::new-leaves-buffer", "Secret::new did not zero the caller's buffer (or accepted a non-canonical secret)".to_string(), case.clone());
            }
            if !hits.is_empty() {
                // shrink: shortest prefix / ddmin of the op list that still frees an unscrubbed block
                let small = crate::util::ddmin(ops.clone(), |cand| !run_sequence(secret, tc, cand, order_seed).0.is_empty());
                let (h2, _, _) = run_sequence(secret, tc, &small, order_seed);
                t.violation(
                    format!("C33:freed-unscrubbed:{}", small.iter().map(|o| op_name(*o).split(['(', '+']).next().unwrap_or("")).collect::<Vec<_>>().join(">")),
                    format!("a heap block of {} bytes containing the secret (at offset {}) was freed without being zeroed; minimal operation sequence: {:?}", h2.first().map(|h| h.0).unwrap_or(hits[0].0), h2.first().map(|h| h.1).unwrap_or(hits[0].1), small.iter().map(|o| op_name(*o)).collect::<Vec<_>>()),
                    json!({"kind": "c33", "secret_seed": seed, "transfer_count": tc, "ops": small, "order_seed": order_seed}),
                );
            }
            let interesting = ops.iter().any(|o| matches!(o, 8 | 10..=13 | 15 | 17..=20));
            t.class(if interesting { "sequence|with-serialisation-or-hashing" } else { "sequence|plain" });
            if interesting {
                t.nontrivial(fnv(&[seed.to_le_bytes().to_vec(), ops.iter().map(|o| *o as u8).collect()].concat()));
            }
            if c < 1 {
                t.sample(json!({"ops": ops.iter().map(|o| op_name(*o)).collect::<Vec<_>>(), "transfer_count": tc}));
            }
        }
        let _ = blocks;
        // positive control of the scanner itself: an unscrubbed Vec holding the image must be seen
        let secret = derive_secret(12345);
        let (_, rep) = alloc::scan_frees(secret, &[], || {
            let v = secret.to_vec();
            std::hint::black_box(&v);
            drop(v);
        });
        if rep.hits.is_empty() {
            t.infra("scanning allocator did not see a deliberately leaked block (self-test)".to_string());
        } else {
            t.class("scanner-self-test|leak-detected");
        }
    });
}

pub fn replay(case: &serde_json::Value) -> Result<bool, String> {
    if case["kind"] == "c33" {
        let seed = case["secret_seed"].as_u64().ok_or("seed")?;
        let tc = case["transfer_count"].as_u64().ok_or("tc")?;
        let ops: Vec<u64> = case["ops"].as_array().ok_or("ops")?.iter().map(|x| x.as_u64().unwrap_or(0)).collect();
        let order_seed = case["order_seed"].as_u64().unwrap_or(0);
        let (hits, nz, p) = run_sequence(derive_secret(seed), tc, &ops, order_seed);
        eprintln!("replay: hits (block size, offset of the secret image) = {:?}; buffer-not-zeroed = {}; panic = {:?}; size_of<Option<Held>> = {}", hits, nz, p, std::mem::size_of::<Option<Held>>());
        return Ok(!hits.is_empty() || nz || p.is_some());
    }
    Err("C32 cases are regenerated from the recorded seed".into())
}

#[allow(dead_code)]
fn _unused() {
    let _ = digest_to_bytes;
}
