//! C28 — circuit-config policy (exhaustive grid + constructors + profiling CLI) and
//! C29 — per-layer proof counts bounded at every entry point (table of entry points x
//! counts, each probed in a child process whose allocator kills it when it allocates
//! "as if building").

use clap::Parser;
use plonky2::field::types::Field;
use plonky2::iop::witness::{PartialWitness, WitnessWrite};
use plonky2::plonk::circuit_builder::CircuitBuilder;
use plonky2::plonk::circuit_data::{CircuitConfig, CircuitData, VerifierCircuitData};
use plonky2::plonk::proof::ProofWithPublicInputs;
use plonky2::util::serialization::DefaultGateSerializer;
use serde_json::json;
use std::path::PathBuf;
use wormhole_aggregator::common::recursive::add_recursive_verifiers;
use wormhole_aggregator::common::utils as agg_utils;
use wormhole_aggregator::pool::{PoolLimits, ProofPool};
use wormhole_aggregator::private_batch::circuit::circuit_logic::PrivateBatchCircuit;
use wormhole_aggregator::private_batch::prover::PrivateBatchProver;
use wormhole_aggregator::public_batch::circuit::circuit_logic::PublicBatchCircuit;
use wormhole_aggregator::public_batch::prover::PublicBatchProver;
use wormhole_aggregator::CircuitBinsConfig;
use wormhole_circuit::circuit::circuit_logic::WormholeCircuit;
use wormhole_prover::WormholeProver;
use zk_circuits_common::circuit::{
    validate_circuit_config, wormhole_leaf_circuit_config, wormhole_private_batch_circuit_config, wormhole_public_batch_circuit_config, C, D, F,
};

use crate::util::alloc;
use crate::util::rng::Rng;
use crate::util::{catch, fnv_u64s, Ctx, Tally};

#[allow(dead_code)]
#[path = "/repo/wormhole/memprof/src/config.rs"]
mod memprof_config;

#[derive(Parser, Debug)]
struct MemprofCli {
    #[command(flatten)]
    agg: memprof_config::AggConfigArgs,
}

// =============================================================== C28 =========

#[derive(Clone, Copy, Debug, PartialEq, Eq)]
pub struct Knobs {
    ch: usize,
    sec: usize,
    qr: usize,
    wires: usize,
    routed: usize,
    quot: usize,
    rate: usize,
    cap: usize,
    zk: bool,
}

impl Knobs {
    fn canonical() -> Knobs {
        let c = CircuitConfig::standard_recursion_config();
        Knobs { ch: c.num_challenges, sec: c.security_bits, qr: c.fri_config.num_query_rounds, wires: c.num_wires, routed: c.num_routed_wires, quot: c.max_quotient_degree_factor, rate: c.fri_config.rate_bits, cap: c.fri_config.cap_height, zk: false }
    }
    fn config(&self) -> CircuitConfig {
        let mut c = if self.zk { CircuitConfig::standard_recursion_zk_config() } else { CircuitConfig::standard_recursion_config() };
        c.num_challenges = self.ch;
        c.security_bits = self.sec;
        c.fri_config.num_query_rounds = self.qr;
        c.num_wires = self.wires;
        c.num_routed_wires = self.routed;
        c.max_quotient_degree_factor = self.quot;
        c.fri_config.rate_bits = self.rate;
        c.fri_config.cap_height = self.cap;
        c
    }
    fn vec(&self) -> Vec<u64> {
        vec![self.ch as u64, self.sec as u64, self.qr as u64, self.wires as u64, self.routed as u64, self.quot as u64, self.rate as u64, self.cap as u64, self.zk as u64]
    }
    fn json(&self) -> serde_json::Value {
        json!({"num_challenges": self.ch, "security_bits": self.sec, "num_query_rounds": self.qr, "num_wires": self.wires, "num_routed_wires": self.routed,
               "max_quotient_degree_factor": self.quot, "rate_bits": self.rate, "cap_height": self.cap, "zero_knowledge": self.zk})
    }
    fn from_json(v: &serde_json::Value) -> Option<Knobs> {
        let g = |k: &str| v[k].as_u64().map(|x| x as usize);
        Some(Knobs { ch: g("num_challenges")?, sec: g("security_bits")?, qr: g("num_query_rounds")?, wires: g("num_wires")?, routed: g("num_routed_wires")?, quot: g("max_quotient_degree_factor")?, rate: g("rate_bits")?, cap: g("cap_height")?, zk: v["zero_knowledge"].as_bool()? })
    }
}

fn ceil_log2(n: usize) -> usize {
    // smallest k with 2^k >= n, for n >= 1
    let mut k = 0usize;
    while k < usize::BITS as usize && (1u128 << k) < n as u128 {
        k += 1;
    }
    k
}

/// Failing clauses of the policy stated in C28 (empty = accepted).
pub fn ref_policy(k: &Knobs) -> Vec<&'static str> {
    let mut f = vec![];
    if k.ch == 0 {
        f.push("num_challenges>0");
    }
    if k.sec == 0 {
        f.push("security_bits>0");
    }
    if k.qr == 0 {
        f.push("num_query_rounds>0");
    }
    if k.wires < 135 {
        f.push("num_wires>=135");
    }
    if k.routed < 37 {
        f.push("routed>=37");
    }
    if k.routed > k.wires {
        f.push("routed<=wires");
    }
    if k.quot < 7 {
        f.push("quotient>=7");
    }
    if k.rate > 8 {
        f.push("rate_bits<=8");
    }
    if k.cap > 8 {
        f.push("cap_height<=8");
    }
    if k.quot >= 1 && k.rate < ceil_log2(k.quot) {
        f.push("rate_bits>=ceil(log2(quotient))");
    }
    f
}

const V_CH: [usize; 3] = [0, 1, 2];
const V_SEC: [usize; 3] = [0, 1, 100];
const V_QR: [usize; 3] = [0, 1, 28];
const V_WIRES: [usize; 5] = [0, 134, 135, 136, 200];
const V_ROUTED: [usize; 9] = [0, 36, 37, 38, 60, 134, 135, 136, 201];
const V_QUOT: [usize; 10] = [0, 1, 6, 7, 8, 9, 16, 17, 256, 257];
const V_RATE: [usize; 12] = [0, 1, 2, 3, 4, 5, 6, 7, 8, 9, 63, usize::MAX];
const V_CAP: [usize; 6] = [0, 4, 8, 9, 63, usize::MAX];

pub struct Fixtures {
    pub leaf: CircuitData<F, C, D>,
    pub leaf_targets: wormhole_circuit::circuit::circuit_logic::CircuitTargets,
    pub leaf_vd: VerifierCircuitData<F, C, D>,
    pub dummy_leaf_bytes: Vec<u8>,
    pub dummy_leaf: ProofWithPublicInputs<F, C, D>,
    /// 29-public-input pass-through circuit standing in for a private-batch child (N = 1)
    pub pb29: CircuitData<F, C, D>,
    pub pb29_proof: ProofWithPublicInputs<F, C, D>,
}

pub fn passthrough(num_pis: usize) -> (CircuitData<F, C, D>, Vec<plonky2::iop::target::Target>) {
    let mut b = CircuitBuilder::<F, D>::new(CircuitConfig::standard_recursion_config());
    let ts = b.add_virtual_targets(num_pis);
    b.register_public_inputs(&ts);
    // pad to a recursion-friendly size
    while b.num_gates() < 1 << 5 {
        b.add_gate(plonky2::gates::noop::NoopGate, vec![]);
    }
    (b.build::<C>(), ts)
}

impl Fixtures {
    pub fn build() -> Result<Fixtures, String> {
        let wc = WormholeCircuit::new(wormhole_leaf_circuit_config()).map_err(|e| e.to_string())?;
        let leaf_targets = wc.targets();
        let leaf = wc.build_circuit();
        let leaf_vd = leaf.verifier_data();
        let dummy_leaf_bytes = wormhole_aggregator::generate_dummy_proof(&leaf, &leaf_targets).map_err(|e| e.to_string())?;
        let dummy_leaf = ProofWithPublicInputs::<F, C, D>::from_bytes(dummy_leaf_bytes.clone(), &leaf.common).map_err(|e| e.to_string())?;
        let (pb29, ts) = passthrough(29);
        let mut pw = PartialWitness::new();
        for (i, t) in ts.iter().enumerate() {
            pw.set_target(*t, if i == 0 { F::TWO } else { F::ZERO }).map_err(|e| e.to_string())?;
        }
        let pb29_proof = pb29.prove(pw).map_err(|e| e.to_string())?;
        Ok(Fixtures { leaf, leaf_targets, leaf_vd, dummy_leaf_bytes, dummy_leaf, pb29, pb29_proof })
    }
}

const CONSTRUCTORS: [&str; 6] = ["WormholeCircuit::new", "WormholeProver::new", "PrivateBatchCircuit::new", "PublicBatchCircuit::new", "PrivateBatchProver::new", "PublicBatchProver::new"];

/// Call constructor `which` with `cfg`; Ok(true) = returned Ok, Ok(false) = returned Err.
fn call_constructor(fx: &Fixtures, which: usize, cfg: CircuitConfig) -> Result<bool, String> {
    catch(|| match which {
        0 => WormholeCircuit::new(cfg).is_ok(),
        1 => WormholeProver::new(cfg).is_ok(),
        2 => PrivateBatchCircuit::new(cfg, &fx.leaf.common, &fx.leaf.verifier_only, 1).is_ok(),
        3 => PublicBatchCircuit::new(cfg, fx.pb29.common.clone(), &fx.pb29.verifier_only, 1, 1).is_ok(),
        4 => PrivateBatchProver::new(cfg, fx.leaf.common.clone(), &fx.leaf.verifier_only, 1, fx.dummy_leaf.clone()).is_ok(),
        _ => PublicBatchProver::new(cfg, fx.pb29.common.clone(), &fx.pb29.verifier_only, 1, 1, fx.pb29_proof.clone()).is_ok(),
    })
}

fn c28_constructor_case(fx: &Fixtures, k: &Knobs, t: &mut Tally) {
    let failing = ref_policy(k);
    debug_assert!(!failing.is_empty());
    for (ci, name) in CONSTRUCTORS.iter().enumerate() {
        t.eval();
        let (r, acc) = alloc::account(None, || call_constructor(fx, ci, k.config()));
        let case = json!({"kind": "c28_ctor", "constructor": name, "knobs": k.json()});
        match r {
            Err(p) => t.violation(format!("C28:{}:panic", name), format!("{} panicked on a config failing {:?}: {}", name, failing, p), case),
            Ok(true) => t.violation(format!("C28:{}:accepts", name), format!("{} accepts a config failing {:?}", name, failing), case),
            Ok(false) => {
                if acc.allocated > (64 << 20) {
                    t.violation(format!("C28:{}:builds-before-rejecting", name), format!("{} allocated {} bytes before rejecting a config failing {:?} (a build had started)", name, acc.allocated, failing), case);
                }
            }
        }
        t.class(&format!("ctor|{}|reject:{}", name, failing[0]));
    }
}

fn redirect_stderr_to_null() -> i32 {
    unsafe {
        let saved = libc::dup(2);
        let null = libc::open(b"/dev/null\0".as_ptr() as *const libc::c_char, libc::O_WRONLY);
        if null >= 0 {
            libc::dup2(null, 2);
            libc::close(null);
        }
        saved
    }
}

fn restore_stderr(saved: i32) {
    unsafe {
        if saved >= 0 {
            libc::dup2(saved, 2);
            libc::close(saved);
        }
    }
}

fn cli_argv(rng: &mut Rng) -> Vec<String> {
    let mut a = vec!["memprof".to_string()];
    let mut flag = |rng: &mut Rng, name: &str, vals: &[usize], a: &mut Vec<String>| {
        if rng.chance(2, 5) {
            a.push(format!("--{}", name));
            a.push(rng.pick(vals).to_string());
        }
    };
    flag(rng, "rate-bits", &V_RATE, &mut a);
    flag(rng, "cap-height", &V_CAP, &mut a);
    flag(rng, "num-wires", &V_WIRES, &mut a);
    flag(rng, "num-routed-wires", &V_ROUTED, &mut a);
    flag(rng, "max-quotient-degree-factor", &V_QUOT, &mut a);
    flag(rng, "num-query-rounds", &[0, 1, 28, 84], &mut a);
    flag(rng, "security-bits", &[0, 1, 100], &mut a);
    flag(rng, "num-challenges", &[0, 1, 2], &mut a);
    if rng.chance(1, 3) {
        a.push("--zk-mode".into());
        a.push(if rng.bool() { "rowblinding".into() } else { "disabled".into() });
    }
    if rng.chance(2, 3) {
        a.push("--allow-weakening-security".into());
    }
    a
}

fn c28_cli_case(argv: &[String], t: &mut Tally) -> bool {
    t.eval();
    let Ok(cli) = MemprofCli::try_parse_from(argv) else {
        t.class("cli|clap-rejects");
        return false;
    };
    let r = catch(|| {
        let v = cli.agg.validate();
        match v {
            Ok(()) => {
                let cfg = cli.agg.build();
                Some(validate_circuit_config(&cfg).map_err(|e| e.to_string()))
            }
            Err(_) => None,
        }
    });
    match r {
        Err(p) => {
            t.violation("C28:cli:panic", format!("profiling CLI validation/build panicked: {}", p), json!({"kind": "c28_cli", "argv": argv}));
            false
        }
        Ok(None) => {
            t.class("cli|validate-rejects");
            false
        }
        Ok(Some(Ok(()))) => {
            t.class("cli|accepted");
            true
        }
        Ok(Some(Err(e))) => {
            t.violation("C28:cli:accepts-failing-config", format!("profiling CLI accepts a flag set whose resulting config fails the structural check: {}", e), json!({"kind": "c28_cli", "argv": argv}));
            true
        }
    }
}

pub fn run_c28(ctx: &Ctx) {
    let n_cli = ctx.tier.pick(60_000usize, 1_500_000);
    let ctor_per_clause = ctx.tier.pick(24usize, 200);
    ctx.set_rule(&format!(
        "validate_circuit_config on the full product of per-knob value sets containing each threshold and both neighbours (challenges {:?} x security {:?} x query rounds {:?} x wires {:?} x routed {:?} x quotient {:?} x rate_bits {:?} x cap_height {:?} x zk {{0,1}} = 1 749 600 configs, enumerated) against the reference predicate written from the statement; \
         for failing configs ({} per violated clause: single-clause deviations from the canonical config plus grid samples) the six constructors WormholeCircuit/WormholeProver/PrivateBatchCircuit/PublicBatchCircuit/PrivateBatchProver/PublicBatchProver::new must return Err without panicking and without allocating as a build would (< 64 MiB); \
         {} argv vectors for the profiling CLI's nine flags (values from the same sets, each present with probability 2/5, with and without --allow-weakening-security) parsed by clap into the repo's AggConfigArgs: validate()==Ok => validate_circuit_config(build())==Ok. \
         Non-trivial: config within one step of a threshold in exactly one knob (exactly one failing clause, or accepted with a knob on its threshold); CLI argv that validate() accepts.",
        V_CH, V_SEC, V_QR, V_WIRES, V_ROUTED, V_QUOT, V_RATE, V_CAP, ctor_per_clause, n_cli));
    ctx.set_exhaustive(false);
    ctx.extra("exhaustive_subspaces", json!(["validate_circuit_config over the full 1 749 600-config product grid"]));
    ctx.assume("accepted non-canonical configs are never built: the property does not promise they build");
    let workers = ctx.n_workers();
    // --- grid ---
    ctx.par(workers, |wi, t| {
        let mut idx = 0usize;
        for &ch in &V_CH {
            for &sec in &V_SEC {
                for &qr in &V_QR {
                    for &wires in &V_WIRES {
                        for &routed in &V_ROUTED {
                            idx += 1;
                            if idx % workers != wi {
                                continue;
                            }
                            for &quot in &V_QUOT {
                                for &rate in &V_RATE {
                                    for &cap in &V_CAP {
                                        for zk in [false, true] {
                                            let k = Knobs { ch, sec, qr, wires, routed, quot, rate, cap, zk };
                                            let failing = ref_policy(&k);
                                            t.eval();
                                            match catch(|| validate_circuit_config(&k.config()).is_ok()) {
                                                Err(p) => t.violation("C28:validate:panic", format!("validate_circuit_config panicked: {}", p), json!({"kind": "c28_cfg", "knobs": k.json()})),
                                                Ok(got) => {
                                                    if got != failing.is_empty() {
                                                        t.violation(
                                                            format!("C28:validate:{}", if got { format!("accepts:{}", failing[0]) } else { "rejects-valid".to_string() }),
                                                            format!("validate_circuit_config ok={} but the stated policy says failing clauses {:?}", got, failing),
                                                            json!({"kind": "c28_cfg", "knobs": k.json()}),
                                                        );
                                                    }
                                                }
                                            }
                                            if failing.len() <= 1 {
                                                t.nontrivial(fnv_u64s(&k.vec()));
                                                if failing.len() == 1 {
                                                    t.class(&format!("grid|only:{}", failing[0]));
                                                } else {
                                                    t.class("grid|accepted");
                                                }
                                            } else {
                                                t.class("grid|multiple-clauses");
                                            }
                                        }
                                    }
                                }
                            }
                        }
                    }
                }
            }
        }
    });
    // --- constructors ---
    let fx = match Fixtures::build() {
        Ok(f) => f,
        Err(e) => {
            ctx.tally.lock().unwrap().infra(format!("fixtures: {}", e));
            return;
        }
    };
    let fx = &fx;
    // single-clause deviations from the canonical config
    let canon = Knobs::canonical();
    let mut devs: Vec<Knobs> = vec![];
    let mut seed_rng = Rng::fork(ctx.seed, 4242);
    for _ in 0..ctor_per_clause {
        for clause in 0..10 {
            let mut k = canon;
            k.zk = seed_rng.bool();
            match clause {
                0 => k.ch = 0,
                1 => k.sec = 0,
                2 => k.qr = 0,
                3 => k.wires = *seed_rng.pick(&[0usize, 1, 80, 134]),
                4 => k.routed = *seed_rng.pick(&[0usize, 1, 36]),
                5 => {
                    k.wires = *seed_rng.pick(&[135usize, 136, 200]);
                    k.routed = k.wires + 1 + seed_rng.usize(3);
                }
                6 => k.quot = *seed_rng.pick(&[0usize, 1, 6]),
                7 => k.rate = *seed_rng.pick(&[9usize, 10, 30, 63, usize::MAX]),
                8 => k.cap = *seed_rng.pick(&[9usize, 10, 40, 63, usize::MAX]),
                _ => {
                    k.quot = *seed_rng.pick(&[9usize, 16, 17, 256]);
                    k.rate = ceil_log2(k.quot) - 1;
                }
            }
            if !ref_policy(&k).is_empty() {
                devs.push(k);
            }
        }
    }
    let devs = &devs;
    ctx.par(workers, |wi, t| {
        for (i, k) in devs.iter().enumerate() {
            if i % workers != wi {
                continue;
            }
            c28_constructor_case(fx, k, t);
            if i < 3 {
                t.sample(json!({"failing": ref_policy(k), "knobs": k.json()}));
            }
        }
        // canonical configs are accepted by their constructors (control; cheap ones only)
        if wi == 0 {
            for (ci, cfg) in [(0usize, wormhole_leaf_circuit_config()), (1, wormhole_leaf_circuit_config())] {
                t.eval();
                match call_constructor(fx, ci, cfg) {
                    Ok(true) => t.class("ctor|canonical-accepted(control)"),
                    other => t.infra(format!("canonical config rejected by {}: {:?}", CONSTRUCTORS[ci], other)),
                }
            }
            for cfg in [wormhole_leaf_circuit_config(), wormhole_private_batch_circuit_config(), wormhole_public_batch_circuit_config()] {
                if validate_circuit_config(&cfg).is_err() {
                    t.violation("C28:validate:rejects-canonical", "a canonical wormhole_*_circuit_config() fails the structural check".to_string(), json!({"kind": "c28_canonical"}));
                }
            }
        }
    });
    // --- CLI ---
    let saved = redirect_stderr_to_null();
    ctx.par(workers, |wi, t| {
        let mut rng = Rng::fork(ctx.seed, 100 + wi as u64);
        let mut accepted = 0u64;
        for c in 0..n_cli.div_ceil(workers) {
            let argv = cli_argv(&mut rng);
            if c28_cli_case(&argv, t) {
                accepted += 1;
                t.nontrivial(crate::util::fnv_str(&argv.join(" ")));
                if accepted <= 2 {
                    t.sample(json!({"cli_argv_accepted": argv}));
                }
            }
        }
        if accepted == 0 {
            t.infra("no CLI flag set was accepted (degenerate accepting side)".to_string());
        }
    });
    restore_stderr(saved);
}

// =============================================================== C29 =========

const COUNTS: [usize; 14] = [0, 1, 2, 63, 64, 65, 66, 1000, 1 << 16, 1 << 32, 1 << 63, usize::MAX, usize::MAX - 1, (1 << 32) + 1];

struct Entry {
    name: &'static str,
    /// valid counts are probed too (cheap entry points only)
    cheap: bool,
    /// needs a vector of length proportional to the count: skip counts above this
    max_count: usize,
}

const ENTRIES: [Entry; 33] = [
    Entry { name: "validate_proof_count", cheap: true, max_count: usize::MAX },
    Entry { name: "CircuitBinsConfig::new(c,None)", cheap: true, max_count: usize::MAX },
    Entry { name: "CircuitBinsConfig::new(1,Some(c))", cheap: true, max_count: usize::MAX },
    Entry { name: "CircuitBinsConfig::validate(leaf=c)", cheap: true, max_count: usize::MAX },
    Entry { name: "CircuitBinsConfig::validate(private=c)", cheap: true, max_count: usize::MAX },
    Entry { name: "CircuitBinsConfig::load(num_leaf_proofs=c)", cheap: true, max_count: usize::MAX },
    Entry { name: "CircuitBinsConfig::load(num_private_batch_proofs=c)", cheap: true, max_count: usize::MAX },
    Entry { name: "CircuitBinsConfig::load(legacy num_layer0_proofs=c)", cheap: true, max_count: usize::MAX },
    Entry { name: "PrivateBatchPublicInputs::try_from_u64_slice(len 8+21c)", cheap: true, max_count: 70_000 },
    Entry { name: "PrivateBatchPublicInputs::try_from_felts(len 8+21c)", cheap: true, max_count: 70_000 },
    Entry { name: "verifier::parse_private_batch_public_inputs(len 8+21c)", cheap: true, max_count: 70_000 },
    Entry { name: "PublicBatchPublicInputs::try_from_u64_slice(m=c,n=1)", cheap: false, max_count: usize::MAX },
    Entry { name: "PublicBatchPublicInputs::try_from_u64_slice(m=1,n=c)", cheap: false, max_count: usize::MAX },
    Entry { name: "verifier::parse_public_batch_public_inputs(m=c,n=1)", cheap: false, max_count: usize::MAX },
    Entry { name: "verifier::parse_public_batch_public_inputs(m=1,n=c)", cheap: false, max_count: usize::MAX },
    Entry { name: "private_batch_num_leaves_from_padded_pi_len(8+21c)", cheap: true, max_count: (usize::MAX - 8) / 21 },
    Entry { name: "add_recursive_verifiers(num_proofs=c)", cheap: false, max_count: usize::MAX },
    Entry { name: "PrivateBatchCircuit::new(n_leaf=c)", cheap: false, max_count: usize::MAX },
    Entry { name: "PublicBatchCircuit::new(n_inner=c,leaves=1)", cheap: false, max_count: usize::MAX },
    Entry { name: "PublicBatchCircuit::new(n_inner=1,leaves=c)", cheap: false, max_count: usize::MAX },
    Entry { name: "PrivateBatchProver::new(num_leaf_proofs=c)", cheap: false, max_count: usize::MAX },
    Entry { name: "PrivateBatchProver::new_from_bytes(num_leaf_proofs=c)", cheap: false, max_count: usize::MAX },
    Entry { name: "PublicBatchProver::new(m=c,n=1)", cheap: false, max_count: usize::MAX },
    Entry { name: "PublicBatchProver::new(m=1,n=c)", cheap: false, max_count: usize::MAX },
    Entry { name: "PublicBatchProver::new_from_bytes((n=c,m=1))", cheap: false, max_count: usize::MAX },
    Entry { name: "PublicBatchProver::new_from_bytes((n=1,m=c))", cheap: false, max_count: usize::MAX },
    Entry { name: "ProofPool::new(inner_num_leaves=c)", cheap: false, max_count: usize::MAX },
    Entry { name: "ProofPool::new(batch_size=c)", cheap: false, max_count: usize::MAX },
    Entry { name: "canonical_private_batch_verifier_data(c)", cheap: false, max_count: usize::MAX },
    Entry { name: "canonical_public_batch_verifier_data(m=c|n=c)", cheap: false, max_count: usize::MAX },
    Entry { name: "load_canonical_private_batch_verifier_data(c)", cheap: false, max_count: usize::MAX },
    Entry { name: "generate_private/public_batch_circuit_binaries(c)", cheap: false, max_count: usize::MAX },
    Entry { name: "generate_all_circuit_binaries(c)", cheap: false, max_count: usize::MAX },
];

fn count_files(dir: &std::path::Path) -> usize {
    fn rec(p: &std::path::Path, n: &mut usize) {
        if let Ok(rd) = std::fs::read_dir(p) {
            for e in rd.flatten() {
                *n += 1;
                if e.path().is_dir() {
                    rec(&e.path(), n);
                }
            }
        }
    }
    let mut n = 0;
    rec(dir, &mut n);
    n
}

/// Child side: run entry `ei` with count `c` under allocation accounting with a
/// hard limit (exit code 77 when exceeded) and print one RESULT line.
pub fn c29_child(ei: usize, c: usize, scratch: &str) -> ! {
    // fixtures are built before arming, and only those the probed entry needs
    let fx_store = if ei >= 16 { Some(Fixtures::build().expect("fixtures")) } else { None };
    let fx = || fx_store.as_ref().unwrap();
    let dir = PathBuf::from(scratch);
    std::fs::create_dir_all(&dir).ok();
    let out_dir = dir.join("out");
    let leaf_common_bytes = if ei >= 16 { fx().leaf.common.to_bytes(&DefaultGateSerializer).unwrap() } else { vec![] };
    let leaf_vo_bytes = if ei >= 16 { fx().leaf.verifier_only.to_bytes().unwrap() } else { vec![] };
    let pb_common_bytes = if ei >= 16 { fx().pb29.common.to_bytes(&DefaultGateSerializer).unwrap() } else { vec![] };
    let pb_vo_bytes = if ei >= 16 { fx().pb29.verifier_only.to_bytes().unwrap() } else { vec![] };
    let pb_proof_bytes = if ei >= 16 { fx().pb29_proof.to_bytes() } else { vec![] };
    let vec_len = |c: usize| -> usize { 8usize.wrapping_add(21usize.wrapping_mul(c)) };
    let limits = PoolLimits { max_proofs: 64, max_buckets: 4, max_verifies_per_window: 100, verify_window: std::time::Duration::from_secs(60) };
    let write_cfg = |body: String| {
        std::fs::create_dir_all(&out_dir).ok();
        std::fs::write(out_dir.join("config.json"), body).unwrap();
    };
    // prepare inputs that must exist before the probed call
    let mut vec_u64: Vec<u64> = vec![];
    match ei {
        5 => write_cfg(format!("{{\"num_leaf_proofs\": {}, \"num_private_batch_proofs\": 1}}", c)),
        6 => write_cfg(format!("{{\"num_leaf_proofs\": 1, \"num_private_batch_proofs\": {}}}", c)),
        7 => write_cfg(format!("{{\"num_leaf_proofs\": 1, \"num_layer0_proofs\": {}}}", c)),
        8 | 9 | 10 => {
            vec_u64 = vec![0u64; vec_len(c)];
            vec_u64[0] = (2 * c) as u64;
        }
        11..=14 => {
            vec_u64 = vec![0u64; 26];
            vec_u64[11] = 2;
        }
        31 | 32 => {
            // real leaf artifacts so that only the count can be the reason for rejection
            std::fs::create_dir_all(&out_dir).ok();
            std::fs::write(out_dir.join("common.bin"), &leaf_common_bytes).unwrap();
            std::fs::write(out_dir.join("verifier.bin"), &leaf_vo_bytes).unwrap();
            std::fs::write(out_dir.join("dummy_proof.bin"), &fx().dummy_leaf_bytes).unwrap();
        }
        _ => {}
    }
    let files_before = count_files(&dir);
    let felts: Vec<F> = vec_u64.iter().map(|x| F::from_canonical_u64(*x)).collect();
    let vproof2 = if matches!(ei, 10 | 13 | 14) {
        let mut p = crate::props::parsers::ProofShell::build().expect("shell").proof;
        p.public_inputs = vec_u64.iter().map(|x| wormhole_verifier::F::from_canonical_u64(*x)).collect();
        Some(p)
    } else {
        None
    };
    // Entries taking the *inner* (private-batch) circuit from the caller together with its leaf count:
    // the constructor's shape check (public inputs = 8 + 21 * leaves) must not stand in for the count
    // bound, so for small invalid counts the inner circuit handed in has exactly the matching shape.
    let matched: Option<(CircuitData<F, C, D>, ProofWithPublicInputs<F, C, D>)> = if matches!(ei, 19 | 23 | 26 | 29) && c != 1 && c <= 128 {
        let (d, ts) = passthrough(8 + 21 * c);
        let mut pw = PartialWitness::new();
        for (i, t) in ts.iter().enumerate() {
            pw.set_target(*t, if i == 0 { F::from_canonical_u64(2 * c as u64) } else { F::ZERO }).expect("set");
        }
        let p = d.prove(pw).expect("matched inner proof");
        Some((d, p))
    } else {
        None
    };
    let inner = || -> &CircuitData<F, C, D> { matched.as_ref().map(|m| &m.0).unwrap_or_else(|| &fx().pb29) };
    let inner_proof = || -> ProofWithPublicInputs<F, C, D> { matched.as_ref().map(|m| m.1.clone()).unwrap_or_else(|| fx().pb29_proof.clone()) };
    // silence the repo's progress printing
    let saved_out = unsafe {
        let s = libc::dup(1);
        let null = libc::open(b"/dev/null\0".as_ptr() as *const libc::c_char, libc::O_WRONLY);
        libc::dup2(null, 1);
        libc::close(null);
        s
    };
    let (r, acc) = alloc::account(Some(192 << 20), || {
        catch(|| -> bool {
            match ei {
                0 => wormhole_aggregator::validate_proof_count(c, "count").is_ok(),
                1 => CircuitBinsConfig::new(c, None).is_ok(),
                2 => CircuitBinsConfig::new(1, Some(c)).is_ok(),
                3 => CircuitBinsConfig { num_leaf_proofs: c, num_private_batch_proofs: None }.validate().is_ok(),
                4 => CircuitBinsConfig { num_leaf_proofs: 1, num_private_batch_proofs: Some(c) }.validate().is_ok(),
                5 | 6 | 7 => CircuitBinsConfig::load(&out_dir).is_ok(),
                8 => wormhole_verifier::PrivateBatchPublicInputs::try_from_u64_slice(&vec_u64).is_ok(),
                9 => <wormhole_verifier::PrivateBatchPublicInputs as wormhole_circuit::inputs::ParsePrivateBatchPublicInputs>::try_from_felts(&felts).is_ok(),
                10 => wormhole_verifier::parse_private_batch_public_inputs(vproof2.as_ref().unwrap()).is_ok(),
                11 => wormhole_verifier::PublicBatchPublicInputs::try_from_u64_slice(&vec_u64, c, 1).is_ok(),
                12 => wormhole_verifier::PublicBatchPublicInputs::try_from_u64_slice(&vec_u64, 1, c).is_ok(),
                13 => wormhole_verifier::parse_public_batch_public_inputs(vproof2.as_ref().unwrap(), c, 1).is_ok(),
                14 => wormhole_verifier::parse_public_batch_public_inputs(vproof2.as_ref().unwrap(), 1, c).is_ok(),
                15 => agg_utils::private_batch_num_leaves_from_padded_pi_len(vec_len(c)).is_ok(),
                16 => {
                    let mut b = CircuitBuilder::<F, D>::new(wormhole_private_batch_circuit_config());
                    add_recursive_verifiers::<F, C, D>(&mut b, &fx().leaf.common, &fx().leaf.verifier_only, c).is_ok()
                }
                17 => PrivateBatchCircuit::new(wormhole_private_batch_circuit_config(), &fx().leaf.common, &fx().leaf.verifier_only, c).is_ok(),
                18 => PublicBatchCircuit::new(wormhole_public_batch_circuit_config(), fx().pb29.common.clone(), &fx().pb29.verifier_only, c, 1).is_ok(),
                19 => PublicBatchCircuit::new(wormhole_public_batch_circuit_config(), inner().common.clone(), &inner().verifier_only, 1, c).is_ok(),
                20 => PrivateBatchProver::new(wormhole_private_batch_circuit_config(), fx().leaf.common.clone(), &fx().leaf.verifier_only, c, fx().dummy_leaf.clone()).is_ok(),
                21 => PrivateBatchProver::new_from_bytes(&leaf_common_bytes, &leaf_vo_bytes, &fx().dummy_leaf_bytes, c).is_ok(),
                22 => PublicBatchProver::new(wormhole_public_batch_circuit_config(), fx().pb29.common.clone(), &fx().pb29.verifier_only, c, 1, fx().pb29_proof.clone()).is_ok(),
                23 => PublicBatchProver::new(wormhole_public_batch_circuit_config(), inner().common.clone(), &inner().verifier_only, 1, c, inner_proof()).is_ok(),
                24 => PublicBatchProver::new_from_bytes(&pb_common_bytes, &pb_vo_bytes, &pb_proof_bytes, (c, 1)).is_ok(),
                25 => PublicBatchProver::new_from_bytes(&pb_common_bytes, &pb_vo_bytes, &pb_proof_bytes, (1, c)).is_ok(),
                26 => ProofPool::new(inner().verifier_data(), c, 1, limits.clone()).is_ok(),
                27 => ProofPool::new(fx().pb29.verifier_data(), 1, c, limits.clone()).is_ok(),
                28 => agg_utils::canonical_private_batch_verifier_data(&fx().leaf_vd, c).is_ok(),
                29 => agg_utils::canonical_public_batch_verifier_data(&fx().pb29.verifier_data(), c, 1).is_ok() || agg_utils::canonical_public_batch_verifier_data(&inner().verifier_data(), 1, c).is_ok(),
                30 => agg_utils::load_canonical_private_batch_verifier_data(&pb_common_bytes, &pb_vo_bytes, &fx().leaf_vd, c).is_ok(),
                31 => {
                    wormhole_aggregator::private_batch::circuit::build::generate_private_batch_circuit_binaries(&out_dir, c, false).is_ok()
                        || wormhole_aggregator::public_batch::circuit::build::generate_public_batch_circuit_binaries(&out_dir, c, 1).is_ok()
                        || wormhole_aggregator::public_batch::circuit::build::generate_public_batch_circuit_binaries(&out_dir, 1, c).is_ok()
                }
                _ => circuit_builder::generate_all_circuit_binaries(&out_dir, false, c, None).is_ok() || circuit_builder::generate_all_circuit_binaries(&out_dir, false, 1, Some(c)).is_ok(),
            }
        })
    });
    unsafe {
        libc::dup2(saved_out, 1);
        libc::close(saved_out);
    }
    let files_after = count_files(&dir);
    let verdict = match r {
        Ok(true) => "ok".to_string(),
        Ok(false) => "err".to_string(),
        Err(p) => format!("panic:{}", p.replace(['\n', ' '], "_")),
    };
    println!("RESULT {} allocated={} max_single={} new_files={}", verdict, acc.allocated, acc.max_single, files_after as i64 - files_before as i64);
    std::process::exit(0);
}

fn run_child(ei: usize, c: usize, scratch: &std::path::Path) -> Result<(String, u64, u64, i64), String> {
    use std::io::Read;
    let exe = std::env::current_exe().map_err(|e| e.to_string())?;
    let dir = scratch.join(format!("e{}_c{}", ei, c));
    let mut child = std::process::Command::new(exe)
        .args(["c29-child", &ei.to_string(), &c.to_string(), dir.to_str().unwrap()])
        .stdout(std::process::Stdio::piped())
        .stderr(std::process::Stdio::null())
        .spawn()
        .map_err(|e| e.to_string())?;
    let start = std::time::Instant::now();
    let status = loop {
        match child.try_wait() {
            Ok(Some(s)) => break s,
            Ok(None) => {
                if start.elapsed().as_secs() > 120 {
                    let _ = child.kill();
                    let _ = child.wait();
                    let _ = std::fs::remove_dir_all(&dir);
                    return Ok(("timeout".into(), 0, 0, 0));
                }
                std::thread::sleep(std::time::Duration::from_millis(5));
            }
            Err(e) => return Err(e.to_string()),
        }
    };
    let mut out = String::new();
    if let Some(mut so) = child.stdout.take() {
        let _ = so.read_to_string(&mut out);
    }
    let _ = std::fs::remove_dir_all(&dir);
    if status.code() == Some(77) {
        return Ok(("alloc-limit".into(), 192 << 20, 0, 0));
    }
    let Some(line) = out.lines().find(|l| l.starts_with("RESULT ")) else {
        return Ok((format!("crashed(status={:?})", status.code()), 0, 0, 0));
    };
    let mut verdict = String::new();
    let (mut a, mut m, mut nf) = (0u64, 0u64, 0i64);
    for (i, tok) in line.split_whitespace().enumerate() {
        if i == 1 {
            verdict = tok.to_string();
        } else if let Some(v) = tok.strip_prefix("allocated=") {
            a = v.parse().unwrap_or(0);
        } else if let Some(v) = tok.strip_prefix("max_single=") {
            m = v.parse().unwrap_or(0);
        } else if let Some(v) = tok.strip_prefix("new_files=") {
            nf = v.parse().unwrap_or(0);
        }
    }
    Ok((verdict, a, m, nf))
}

fn c29_judge(ei: usize, c: usize, res: &(String, u64, u64, i64), t: &mut Tally) {
    let e = &ENTRIES[ei];
    let valid = (1..=64).contains(&c);
    let case = json!({"kind": "c29", "entry": ei, "entry_name": e.name, "count": c});
    let (verdict, allocated, max_single, new_files) = (res.0.as_str(), res.1, res.2, res.3);
    t.eval();
    t.class(&format!("{}|{}", if valid { "valid-count" } else { "invalid-count" }, verdict.split(':').next().unwrap_or("")));
    if valid {
        // only cheap entry points are probed with valid counts: they must accept
        // (parsers are probed with an otherwise well-formed all-zero vector)
        let should_accept = matches!(ei, 0..=10 | 15);
        if should_accept && verdict != "ok" {
            t.violation(format!("C29:{}:rejects-valid-count", e.name), format!("{} with count {} -> {}", e.name, c, verdict), case);
        }
        return;
    }
    if [0usize, 65, usize::MAX].contains(&c) {
        t.nontrivial(fnv_u64s(&[ei as u64, c as u64]));
    }
    match verdict {
        "err" => {
            if allocated > (64 << 20) || max_single > (64 << 20) {
                t.violation(format!("C29:{}:allocates-before-rejecting", e.name), format!("{} with count {} allocated {} bytes (largest single {}) before rejecting", e.name, c, allocated, max_single), case);
            } else if new_files > 0 {
                t.violation(format!("C29:{}:writes-before-rejecting", e.name), format!("{} with count {} created {} file(s) although it rejected the count", e.name, c, new_files), case);
            }
        }
        "ok" => t.violation(format!("C29:{}:accepts", e.name), format!("{} accepts count {}", e.name, c), case),
        "alloc-limit" => t.violation(format!("C29:{}:allocates-before-rejecting", e.name), format!("{} with count {} allocated more than 192 MiB without having rejected the count", e.name, c), case),
        "timeout" => t.infra(format!("{} with count {}: child timed out (inconclusive)", e.name, c)),
        v if v.starts_with("panic") => t.violation(format!("C29:{}:panic", e.name), format!("{} with count {} panicked: {}", e.name, c, v), case),
        v => t.violation(format!("C29:{}:abort", e.name), format!("{} with count {}: child {}", e.name, c, v), case),
    }
}

pub fn run_c29(ctx: &Ctx) {
    let n_json = ctx.tier.pick(30_000usize, 1_000_000);
    ctx.set_rule(&format!(
        "table of {} public entry points that take a per-layer proof count x counts {:?}; every (entry point, invalid count) is probed in a child process of the harness whose allocator counts bytes and ends the child (exit 77) above 192 MiB: the call must return Err, not panic/abort, allocate < 64 MiB, create no file; cheap entry points are also probed with valid counts (must accept). \
         In-process: CircuitBinsConfig save->load identity for all 64 x 65 valid pairs, the legacy num_layer0_proofs key, {} generated config.json documents (both keys, strings, negatives, floats, huge integers, nulls, missing fields) against a reference reading; try_pi_len against u128 arithmetic. \
         Non-trivial: (entry point, count) with count in {{0, 65, usize::MAX}}; a generated config document whose reference reading is within one of a bound.",
        ENTRIES.len(), COUNTS, n_json));
    ctx.assume("a child that exceeds the 120 s watchdog is reported as inconclusive (exit 2), never as a violation");
    ctx.extra("exhaustive_subspaces", json!(["entry-point x count table", "CircuitBinsConfig save/load over all 64 x 65 valid pairs"]));
    let scratch = std::env::temp_dir().join(format!("qpv-c29-{}", std::process::id()));
    let _ = std::fs::create_dir_all(&scratch);
    let mut jobs: Vec<(usize, usize)> = vec![];
    for (ei, e) in ENTRIES.iter().enumerate() {
        for &c in &COUNTS {
            let valid = (1..=64).contains(&c);
            if valid && !e.cheap {
                continue;
            }
            if c > e.max_count {
                continue;
            }
            jobs.push((ei, c));
        }
    }
    let jobs = &jobs;
    let scratch_ref = &scratch;
    let workers = ctx.n_workers();
    ctx.par(workers, |wi, t| {
        for (ji, (ei, c)) in jobs.iter().enumerate() {
            if ji % workers != wi {
                continue;
            }
            match run_child(*ei, *c, scratch_ref) {
                Ok(res) => {
                    c29_judge(*ei, *c, &res, t);
                    if ji < 6 {
                        t.sample(json!({"entry": ENTRIES[*ei].name, "count": c, "result": res.0, "allocated_bytes": res.1, "new_files": res.3}));
                    }
                }
                Err(e) => t.infra(format!("child spawn failed: {}", e)),
            }
        }
        // --- CircuitBinsConfig round trip (in process) ---
        let dir = scratch_ref.join(format!("cfg-{}", wi));
        let _ = std::fs::create_dir_all(&dir);
        let saved_out = unsafe {
            let s = libc::dup(1);
            s
        };
        let _ = saved_out;
        for n in 1..=64usize {
            if n % workers != wi {
                continue;
            }
            for m in 0..=64usize {
                let mo = if m == 0 { None } else { Some(m) };
                t.eval();
                let cfg = match CircuitBinsConfig::new(n, mo) {
                    Ok(c) => c,
                    Err(e) => {
                        t.violation("C29:config:rejects-valid-pair", format!("CircuitBinsConfig::new({}, {:?}) rejected: {}", n, mo, e), json!({"kind": "c29_pair", "n": n, "m": m}));
                        continue;
                    }
                };
                // serialise by hand the same way (serde) to avoid the repo's stdout chatter: use save once per n
                let body = serde_json::to_string_pretty(&cfg).unwrap();
                std::fs::write(dir.join("config.json"), &body).unwrap();
                match CircuitBinsConfig::load(&dir) {
                    Ok(l) if l.num_leaf_proofs == n && l.num_private_batch_proofs == mo => {}
                    other => t.violation("C29:config:roundtrip", format!("config ({}, {:?}) does not round-trip: {:?}", n, mo, other.map(|c| (c.num_leaf_proofs, c.num_private_batch_proofs)).map_err(|e| e.to_string())), json!({"kind": "c29_pair", "n": n, "m": m})),
                }
                if m > 0 {
                    std::fs::write(dir.join("config.json"), format!("{{\"num_leaf_proofs\": {}, \"num_layer0_proofs\": {}}}", n, m)).unwrap();
                    match CircuitBinsConfig::load(&dir) {
                        Ok(l) if l.num_leaf_proofs == n && l.num_private_batch_proofs == mo => {}
                        other => t.violation("C29:config:legacy-key", format!("legacy key config ({}, {}) loads as {:?}", n, m, other.map(|c| (c.num_leaf_proofs, c.num_private_batch_proofs)).map_err(|e| e.to_string())), json!({"kind": "c29_pair", "n": n, "m": m})),
                    }
                }
                t.class("config|valid-pair-roundtrip");
            }
        }
        // --- layout-length arithmetic never wraps ---
        {
            let mut r2 = Rng::fork(ctx.seed, 900 + wi as u64);
            crate::props::parsers::pi_len_sweep(&mut r2, t, 4000, "C29");
            t.class("try_pi_len|sweep");
        }
        // --- generated config documents ---
        let mut rng = Rng::fork(ctx.seed, 500 + wi as u64);
        for _ in 0..n_json.div_ceil(workers) {
            c29_json_case(&mut rng, &dir, t);
        }
        let _ = std::fs::remove_dir_all(&dir);
    });
    let _ = std::fs::remove_dir_all(&scratch);
}

/// JSON number/value candidates for a count field with the reference reading:
/// Some(Some(v)) = a usize value, Some(None) = null/absent (Option field), None = type error.
fn json_count(rng: &mut Rng) -> (String, Option<Option<u128>>) {
    match rng.below(16) {
        0 => ("0".into(), Some(Some(0))),
        1 => ("1".into(), Some(Some(1))),
        2 => ("64".into(), Some(Some(64))),
        3 => ("65".into(), Some(Some(65))),
        4 => ("-1".into(), None),
        5 => ("1.0".into(), None),
        6 => ("\"3\"".into(), None),
        7 => ("18446744073709551615".into(), Some(Some(u64::MAX as u128))),
        8 => ("18446744073709551616".into(), None),
        9 => ("null".into(), Some(None)),
        10 => ("1e2".into(), None),
        11 => ("[1]".into(), None),
        12 => ("true".into(), None),
        13 => ("4294967296".into(), Some(Some(1 << 32))),
        _ => {
            let v = 1 + rng.below(70);
            (v.to_string(), Some(Some(v as u128)))
        }
    }
}

fn c29_json_case(rng: &mut Rng, dir: &std::path::Path, t: &mut Tally) {
    t.eval();
    let (ls, lv) = json_count(rng);
    let (ps, pv) = json_count(rng);
    let style = rng.below(8);
    // which keys are present
    let (doc, leaf, private): (String, Option<Option<u128>>, Option<Option<u128>>) = match style {
        0 => (format!("{{\"num_leaf_proofs\": {}}}", ls), lv, Some(None)),
        1 => (format!("{{\"num_private_batch_proofs\": {}}}", ps), None, pv), // missing required field
        2 => (format!("{{\"num_leaf_proofs\": {}, \"num_layer0_proofs\": {}}}", ls, ps), lv, pv),
        3 => (format!("{{\"num_leaf_proofs\": {}, \"num_private_batch_proofs\": {}, \"num_layer0_proofs\": {}}}", ls, ps, ps), lv, None), // duplicate field via alias
        4 => (format!("{{\"num_private_batch_proofs\": {}, \"num_leaf_proofs\": {}, \"extra\": {{\"a\": [1,2]}}}}", ps, ls), lv, pv),
        5 => (format!("{{\"num_leaf_proofs\": {}, \"num_private_batch_proofs\": {}", ls, ps), None, None), // truncated
        _ => (format!("{{\"num_leaf_proofs\": {}, \"num_private_batch_proofs\": {}}}", ls, ps), lv, pv),
    };
    // reference: load succeeds iff both fields read as usize / null and are within 1..=64
    let want: Option<(usize, Option<usize>)> = (|| {
        let l = leaf??;
        let p = private?;
        if !(1..=64).contains(&l) {
            return None;
        }
        if let Some(pv) = p {
            if !(1..=64).contains(&pv) {
                return None;
            }
        }
        Some((l as usize, p.map(|x| x as usize)))
    })();
    std::fs::write(dir.join("config.json"), &doc).unwrap();
    let got = catch(|| CircuitBinsConfig::load(dir).ok().map(|c| (c.num_leaf_proofs, c.num_private_batch_proofs)));
    let case = json!({"kind": "c29_json", "document": doc});
    match got {
        Err(p) => t.violation("C29:config-load:panic", format!("CircuitBinsConfig::load panicked: {}", p), case),
        Ok(g) => {
            if g != want {
                // only the bound direction is decided by the property: an accepted document must carry counts within 1..=64
                let out_of_range = g.map(|(l, p)| !(1..=64).contains(&l) || p.map(|x| !(1..=64).contains(&x)).unwrap_or(false)).unwrap_or(false);
                if out_of_range {
                    t.violation("C29:config-load:accepts-out-of-range", format!("CircuitBinsConfig::load accepts {:?} from document {}", g, doc), case);
                } else if g.is_none() && want.is_some() {
                    t.violation("C29:config-load:rejects-valid", format!("CircuitBinsConfig::load rejects a well-typed in-range document {}", doc), case);
                } else {
                    t.count("config documents where serde's reading differs from the reference reading without breaking the bound (diagnostic)", 1);
                }
            }
        }
    }
    t.class(&format!("config-json|{}", if want.is_some() { "acceptable" } else { "unacceptable" }));
    let near = |v: &Option<Option<u128>>| matches!(v, Some(Some(0)) | Some(Some(1)) | Some(Some(64)) | Some(Some(65)));
    if near(&leaf) || near(&private) {
        t.nontrivial(crate::util::fnv_str(&doc));
    }
}

pub fn replay(case: &serde_json::Value) -> Result<bool, String> {
    let mut t = Tally::new();
    match case["kind"].as_str().unwrap_or("") {
        "c28_cfg" => {
            let k = Knobs::from_json(&case["knobs"]).ok_or("knobs")?;
            let got = catch(|| validate_circuit_config(&k.config()).is_ok());
            return Ok(got != Ok(ref_policy(&k).is_empty()));
        }
        "c28_ctor" => {
            let k = Knobs::from_json(&case["knobs"]).ok_or("knobs")?;
            let fx = Fixtures::build()?;
            c28_constructor_case(&fx, &k, &mut t);
        }
        "c28_cli" => {
            let argv: Vec<String> = case["argv"].as_array().ok_or("argv")?.iter().map(|x| x.as_str().unwrap_or("").to_string()).collect();
            c28_cli_case(&argv, &mut t);
        }
        "c29" => {
            let ei = case["entry"].as_u64().ok_or("entry")? as usize;
            let c = case["count"].as_u64().ok_or("count")? as usize;
            let scratch = std::env::temp_dir().join(format!("qpv-c29-replay-{}", std::process::id()));
            let res = run_child(ei, c, &scratch)?;
            let _ = std::fs::remove_dir_all(&scratch);
            c29_judge(ei, c, &res, &mut t);
        }
        "c29_json" => {
            let dir = std::env::temp_dir().join(format!("qpv-c29-replay-{}", std::process::id()));
            std::fs::create_dir_all(&dir).map_err(|e| e.to_string())?;
            std::fs::write(dir.join("config.json"), case["document"].as_str().ok_or("document")?).map_err(|e| e.to_string())?;
            let got = catch(|| CircuitBinsConfig::load(&dir).ok().map(|c| (c.num_leaf_proofs, c.num_private_batch_proofs)));
            let _ = std::fs::remove_dir_all(&dir);
            return Ok(match got {
                Err(_) => true,
                Ok(Some((l, p))) => !(1..=64).contains(&l) || p.map(|x| !(1..=64).contains(&x)).unwrap_or(false),
                Ok(None) => false,
            });
        }
        k => return Err(format!("replay of kind {} not supported", k)),
    }
    Ok(!t.violations.is_empty())
}
