//! C19–C22 — proof pool as a state machine under a virtual clock (E3).
//!
//! Histories `Vec<Op>` are interpreted against the real `ProofPool` (over a
//! pass-through 21N+8 circuit, so that valid child proofs with arbitrary public
//! inputs cost a few ms) and against a model written from the property statements.
//! Time is frozen virtual time (util::vclock), so ages are exact.

use plonky2::field::types::{Field, PrimeField64};
use plonky2::iop::witness::{PartialWitness, WitnessWrite};
use plonky2::plonk::circuit_data::CircuitData;
use plonky2::plonk::proof::ProofWithPublicInputs;
use serde_json::{json, Value};
use std::collections::{BTreeMap, HashSet};
use std::time::{Duration, Instant};
use wormhole_aggregator::pool::{verif_hooks, BatchKey, PoolLimits, ProofPool};
use wormhole_aggregator::public_batch::prover::lib::verif_preflight_private_batch_proofs;
use zk_circuits_common::circuit::{C, D, F};
use zk_circuits_common::utils::BytesDigest;

use crate::props::config::passthrough;
use crate::refm::{self, D4, P};
use crate::util::rng::Rng;
use crate::util::{catch, ddmin, fnv_str, vclock, Ctx, Tally};

type Proof = ProofWithPublicInputs<F, C, D>;
type KeyT = ([u8; 32], u64, u64);

#[derive(Clone, Copy, PartialEq, Eq, Debug)]
pub enum Which {
    C19,
    C20,
    C21,
    C22,
}

impl Which {
    fn id(self) -> &'static str {
        match self {
            Which::C19 => "C19",
            Which::C20 => "C20",
            Which::C21 => "C21",
            Which::C22 => "C22",
        }
    }
}

// -------------------------------------------------------------------- library

#[derive(Clone, Copy, PartialEq, Eq, Debug)]
pub enum Kind {
    Valid,
    DummyKey,
    Tampered,
    WrongLength,
}

pub struct LibProof {
    pub proof: Proof,
    pub pis: Vec<u64>,
    pub kind: Kind,
}

pub struct Library {
    pub n: usize,
    pub data: CircuitData<F, C, D>,
    pub proofs: Vec<LibProof>,
    pub keys: Vec<KeyT>,
    pub nullifiers: Vec<D4>,
}

fn key_of(pis: &[u64]) -> KeyT {
    (refm::d4_to_bytes(&[pis[3], pis[4], pis[5], pis[6]]), pis[1], pis[2])
}

fn nullifiers_of(pis: &[u64], n: usize) -> Vec<[u8; 32]> {
    (0..n).map(|k| { let b = 8 + 10 * n + 4 * k; refm::d4_to_bytes(&[pis[b], pis[b + 1], pis[b + 2], pis[b + 3]]) }).collect()
}

fn volume_of(pis: &[u64], n: usize) -> u64 {
    (0..2 * n).fold(0u64, |a, s| a.saturating_add(pis[8 + 5 * s]))
}

impl Library {
    /// Deterministic library (independent of VERIF_SEED so that replay files can
    /// refer to proofs by index).
    pub fn build(n: usize) -> Result<Library, String> {
        let (data, targets) = passthrough(21 * n + 8);
        let mut rng = Rng::new(0x5EED_0000 + n as u64);
        let bh_a: D4 = [rng.felt(), rng.felt(), rng.felt(), rng.felt()];
        let mut bh_b = bh_a;
        bh_b[2] = refm::fadd(bh_b[2], 1);
        let bh_c: D4 = [0, 0, 0, 1];
        let key_specs: Vec<(D4, u64, u64)> = vec![(bh_a, 0, 10), (bh_a, 0, 11), (bh_b, 5, 10), (bh_c, 0, 10), (bh_a, 7, 10)];
        let nullifiers: Vec<D4> = (0..10).map(|_| [rng.felt(), rng.felt(), rng.felt(), rng.felt()]).collect();
        let mut specs: Vec<(Vec<u64>, Kind)> = vec![];
        let mk = |rng: &mut Rng, bh: &D4, asset: u64, fee: u64, nulls: &[D4]| -> Vec<u64> {
            let mut v = vec![2 * n as u64, asset, fee, bh[0], bh[1], bh[2], bh[3], rng.u32() as u64];
            for _ in 0..2 * n {
                let amt = match rng.below(8) {
                    0 => 0,
                    1 => P - 1,            // saturating volume
                    2 => (1u64 << 63) + 5, // two of these saturate
                    _ => rng.below(1 << 20),
                };
                v.push(amt);
                v.extend_from_slice(&[rng.felt(), rng.felt(), rng.felt(), rng.felt()]);
            }
            for nl in nulls {
                v.extend_from_slice(nl);
            }
            v.resize(21 * n + 8, 0);
            v
        };
        let pick_nulls = |rng: &mut Rng, pool: &[D4]| -> Vec<D4> {
            let mut out = vec![];
            for k in 0..n {
                if k > 0 && rng.chance(1, 6) {
                    out.push(out[0]); // intra-proof repeat
                } else {
                    out.push(*rng.pick(pool));
                }
            }
            out
        };
        for (bh, asset, fee) in &key_specs {
            for _ in 0..22 {
                let nl = pick_nulls(&mut rng, &nullifiers);
                specs.push((mk(&mut rng, bh, *asset, *fee, &nl), Kind::Valid));
            }
        }
        for _ in 0..6 {
            let nl = pick_nulls(&mut rng, &nullifiers);
            specs.push((mk(&mut rng, &[0; 4], 0, 10, &nl), Kind::DummyKey));
        }
        let n_valid_specs = specs.len();
        let mut proofs = vec![];
        for (pis, kind) in &specs {
            let mut pw = PartialWitness::new();
            for (t, v) in targets.iter().zip(pis.iter()) {
                pw.set_target(*t, F::from_canonical_u64(*v)).map_err(|e| e.to_string())?;
            }
            let proof = data.prove(pw).map_err(|e| e.to_string())?;
            proofs.push(LibProof { proof, pis: pis.clone(), kind: *kind });
        }
        // tampered: public inputs changed after proving (length kept)
        for i in 0..24 {
            let src = (i * 5) % n_valid_specs;
            if proofs[src].kind != Kind::Valid {
                continue;
            }
            let mut p = proofs[src].proof.clone();
            let mut pis = proofs[src].pis.clone();
            match i % 4 {
                0 => pis[8] = refm::fadd(pis[8], 1),
                1 => {
                    // claims another pooled nullifier
                    let nl = nullifiers[(i / 4) % nullifiers.len()];
                    let b = 8 + 10 * n;
                    pis[b..b + 4].copy_from_slice(&nl);
                }
                2 => pis[2] = if pis[2] == 10 { 11 } else { 10 }, // other bucket key
                _ => pis[7] = refm::fadd(pis[7], 1),
            }
            if pis == proofs[src].pis {
                continue;
            }
            p.public_inputs = pis.iter().map(|x| F::from_canonical_u64(*x)).collect();
            proofs.push(LibProof { proof: p, pis, kind: Kind::Tampered });
        }
        // wrong length
        for i in 0..8 {
            let src = (i * 7) % n_valid_specs;
            let mut p = proofs[src].proof.clone();
            let mut pis = proofs[src].pis.clone();
            match i % 4 {
                0 => {
                    pis.pop();
                }
                1 => pis.push(0),
                2 => pis.truncate(8),
                _ => pis.extend(std::iter::repeat(0).take(21)),
            }
            p.public_inputs = pis.iter().map(|x| F::from_canonical_u64(*x)).collect();
            proofs.push(LibProof { proof: p, pis, kind: Kind::WrongLength });
        }
        // sanity: classification matches the real verifier
        for lp in &proofs {
            let ok = data.verify(lp.proof.clone()).is_ok();
            let want = matches!(lp.kind, Kind::Valid | Kind::DummyKey);
            if ok != want {
                return Err(format!("library proof of kind {:?} verifies={}", lp.kind, ok));
            }
        }
        let keys = key_specs.iter().map(|(bh, a, f)| (refm::d4_to_bytes(bh), *a, *f)).collect();
        Ok(Library { n, data, proofs, keys, nullifiers })
    }
}

// ------------------------------------------------------------------------ ops

#[derive(Clone, Debug, PartialEq, Eq)]
pub enum Op {
    Push(usize),
    EvictSettled(Vec<usize>), // indices into the nullifier pool
    EvictOlderThan(u64),      // ns
    Snapshot(usize),          // key index (len = unknown key)
    RemoveBucket(usize),
    Advance(u64), // ns
    Stats,
}

#[derive(Clone, Debug)]
pub struct Cfg {
    pub n: usize,
    pub batch: usize,
    pub max_proofs: usize,
    pub max_buckets: usize,
    pub max_verifies: usize,
    pub window_ns: u64,
}

fn op_json(o: &Op) -> Value {
    match o {
        Op::Push(i) => json!({"push": i}),
        Op::EvictSettled(s) => json!({"evict_settled": s}),
        Op::EvictOlderThan(d) => json!({"evict_older_than_ns": d}),
        Op::Snapshot(k) => json!({"snapshot": k}),
        Op::RemoveBucket(k) => json!({"remove_bucket": k}),
        Op::Advance(d) => json!({"advance_ns": d}),
        Op::Stats => json!("stats"),
    }
}

fn op_from_json(v: &Value) -> Option<Op> {
    if v == "stats" {
        return Some(Op::Stats);
    }
    let o = v.as_object()?;
    let (k, x) = o.iter().next()?;
    Some(match k.as_str() {
        "push" => Op::Push(x.as_u64()? as usize),
        "evict_settled" => Op::EvictSettled(x.as_array()?.iter().map(|y| y.as_u64().unwrap_or(0) as usize).collect()),
        "evict_older_than_ns" => Op::EvictOlderThan(x.as_u64()?),
        "snapshot" => Op::Snapshot(x.as_u64()? as usize),
        "remove_bucket" => Op::RemoveBucket(x.as_u64()? as usize),
        "advance_ns" => Op::Advance(x.as_u64()?),
        _ => return None,
    })
}

fn cfg_json(c: &Cfg) -> Value {
    json!({"n": c.n, "batch": c.batch, "max_proofs": c.max_proofs, "max_buckets": c.max_buckets, "max_verifies": c.max_verifies, "window_ns": c.window_ns})
}

fn cfg_from_json(v: &Value) -> Option<Cfg> {
    Some(Cfg {
        n: v["n"].as_u64()? as usize,
        batch: v["batch"].as_u64()? as usize,
        max_proofs: v["max_proofs"].as_u64()? as usize,
        max_buckets: v["max_buckets"].as_u64()? as usize,
        max_verifies: v["max_verifies"].as_u64()? as usize,
        window_ns: v["window_ns"].as_u64()?,
    })
}

const SEC: u64 = 1_000_000_000;

fn gen_cfg(rng: &mut Rng, n: usize) -> Cfg {
    let batch = 1 + rng.usize(3);
    Cfg {
        n,
        batch,
        // small limits, so that every limit is hit; occasionally an "unlimited" setting (the type's maximum)
        max_proofs: if rng.chance(1, 16) { usize::MAX } else { batch + rng.usize(4) },
        max_buckets: if rng.chance(1, 16) { usize::MAX } else { 1 + rng.usize(3) },
        max_verifies: if rng.chance(1, 16) { usize::MAX } else { 1 + rng.usize(5) },
        // u64::MAX stands for Duration::MAX (a window that never elapses), 1 for the shortest legal window
        // whole and fractional seconds, sub-second windows
        window_ns: match rng.below(24) {
            0 => u64::MAX,
            1 => 1,
            2 | 3 => 1 + rng.below(SEC),
            4..=11 => (1 + rng.below(60)) * SEC + 1 + rng.below(SEC - 1),
            _ => (10 + rng.below(51)) * SEC,
        },
    }
}

fn gen_history(rng: &mut Rng, lib: &Library, cfg: &Cfg, len: usize, push_heavy: bool) -> Vec<Op> {
    let w = cfg.window_ns.clamp(2, 60 * SEC); // advance steps are chosen around the window length (bounded for the extreme windows)
    let mut ops = vec![];
    // a favourite subset of proofs makes duplicates / same-bucket pushes frequent
    let fav: Vec<usize> = (0..8).map(|_| rng.usize(lib.proofs.len())).collect();
    // a hot key and hot nullifiers: evictions, snapshots and removals concentrate on them
    let hot_key = {
        let k = key_of(&lib.proofs[fav[0]].pis);
        lib.keys.iter().position(|x| *x == k).unwrap_or(0)
    };
    let hot_nulls: Vec<usize> = fav
        .iter()
        .flat_map(|i| nullifiers_of(&lib.proofs[*i].pis, lib.n.min((lib.proofs[*i].pis.len().saturating_sub(8)) / 21)))
        .filter_map(|b| lib.nullifiers.iter().position(|x| refm::d4_to_bytes(x) == b))
        .collect();
    for _ in 0..len {
        let r = rng.below(100);
        let push_w = if push_heavy { 62 } else { 45 };
        let op = if r < push_w {
            Op::Push(if rng.chance(2, 3) { *rng.pick(&fav) } else { rng.usize(lib.proofs.len()) })
        } else if r < push_w + 14 {
            Op::Advance(*rng.pick(&[0, 1, SEC, w - 1, w, w + 1, 2 * w, w / 2, 3 * SEC, w - w % SEC, (w - w % SEC).saturating_sub(1), w % SEC]))
        } else if r < push_w + 22 {
            let k = rng.usize(4);
            let mut s: Vec<usize> = (0..k).map(|_| if !hot_nulls.is_empty() && rng.chance(1, 2) { *rng.pick(&hot_nulls) } else { rng.usize(lib.nullifiers.len() + 2) }).collect();
            s.sort();
            s.dedup();
            Op::EvictSettled(s)
        } else if r < push_w + 30 {
            Op::EvictOlderThan(*rng.pick(&[0, 1, SEC, w - 1, w, w + 1, 2 * w, 3 * SEC, 3 * SEC - 1, 3 * SEC + 1, u64::MAX, u64::MAX - 1, u64::MAX - 2, u64::MAX - 3, u64::MAX - 4]))
        } else if r < push_w + 38 {
            Op::Snapshot(if rng.chance(2, 3) { hot_key } else { rng.usize(lib.keys.len() + 1) })
        } else if r < push_w + 44 {
            Op::RemoveBucket(if rng.chance(1, 2) { hot_key } else { rng.usize(lib.keys.len() + 1) })
        } else {
            Op::Stats
        };
        ops.push(op);
    }
    // scripted skeleton (1 history in 3): same-key proofs with distinct nullifiers are admitted,
    // one is evicted, the bucket is snapshot, another is evicted -- spliced into the random ops
    if rng.chance(1, 3) {
        let k = lib.keys[hot_key];
        let mut chosen: Vec<usize> = vec![];
        let mut used: HashSet<[u8; 32]> = HashSet::new();
        for (i, lp) in lib.proofs.iter().enumerate() {
            if lp.kind == Kind::Valid && key_of(&lp.pis) == k {
                let nl = nullifiers_of(&lp.pis, lib.n);
                if nl.iter().all(|x| !used.contains(x)) {
                    used.extend(nl.iter().copied());
                    chosen.push(i);
                    if chosen.len() == 3 {
                        break;
                    }
                }
            }
        }
        if chosen.len() >= 2 {
            let null_idx = |i: usize| -> usize {
                let b = nullifiers_of(&lib.proofs[i].pis, lib.n)[0];
                lib.nullifiers.iter().position(|x| refm::d4_to_bytes(x) == b).unwrap_or(0)
            };
            let mut skel = vec![Op::Advance(w + 1), Op::Push(chosen[0]), Op::Advance(SEC), Op::Push(chosen[1]), Op::EvictSettled(vec![null_idx(chosen[0])]), Op::Snapshot(hot_key)];
            if rng.bool() {
                skel.push(Op::Advance(2 * SEC));
                skel.push(Op::EvictOlderThan(SEC));
            } else {
                skel.push(Op::EvictSettled(vec![null_idx(chosen[1])]));
            }
            if chosen.len() == 3 {
                skel.push(Op::Push(chosen[2]));
            }
            // splice: keep skeleton order, interleave with the random ops
            let mut merged = vec![];
            let mut si = 0;
            for o in ops.into_iter() {
                if si < skel.len() && rng.chance(1, 3) {
                    merged.push(skel[si].clone());
                    si += 1;
                }
                merged.push(o);
            }
            merged.extend(skel[si..].iter().cloned());
            ops = merged;
        }
    }
    ops
}

// ---------------------------------------------------------------------- model

#[derive(Clone, Debug)]
struct MProof {
    lib: usize,
    nullifiers: Vec<[u8; 32]>,
    volume: u64,
    admitted: u64,
}

#[derive(Clone, Debug, Default)]
struct MBucket {
    proofs: Vec<MProof>,
    last_snapshot: Option<u64>,
}

struct Model {
    cfg: Cfg,
    buckets: BTreeMap<KeyT, MBucket>,
    window_start: u64,
    verifies: usize,
    now: u64,
}

#[derive(Debug, PartialEq, Eq, Clone, Copy)]
enum PushWant {
    Full,
    Malformed,
    Dummy,
    BudgetExhausted,
    Invalid,
    BucketLimit,
    Duplicate,
    Admit,
}

impl Model {
    fn len(&self) -> usize {
        self.buckets.values().map(|b| b.proofs.len()).sum()
    }
    fn pooled_nullifiers(&self) -> HashSet<[u8; 32]> {
        self.buckets.values().flat_map(|b| b.proofs.iter().flat_map(|p| p.nullifiers.iter().copied())).collect()
    }
    /// Decide a push per the documented rules, in order; returns (decision, verify calls).
    fn push(&mut self, lib: &Library, i: usize) -> (PushWant, u64) {
        let lp = &lib.proofs[i];
        if self.len() >= self.cfg.max_proofs {
            return (PushWant::Full, 0);
        }
        if lp.pis.len() != 21 * self.cfg.n + 8 {
            return (PushWant::Malformed, 0);
        }
        let key = key_of(&lp.pis);
        if key.0 == [0u8; 32] {
            return (PushWant::Dummy, 0);
        }
        if self.now - self.window_start >= self.cfg.window_ns {
            self.window_start = self.now;
            self.verifies = 0;
        }
        if self.verifies >= self.cfg.max_verifies {
            return (PushWant::BudgetExhausted, 0);
        }
        self.verifies += 1;
        if !matches!(lp.kind, Kind::Valid | Kind::DummyKey) {
            return (PushWant::Invalid, 1);
        }
        if !self.buckets.contains_key(&key) && self.buckets.len() >= self.cfg.max_buckets {
            return (PushWant::BucketLimit, 1);
        }
        let nulls = nullifiers_of(&lp.pis, self.cfg.n);
        let pooled = self.pooled_nullifiers();
        if nulls.iter().any(|x| pooled.contains(x)) {
            return (PushWant::Duplicate, 1);
        }
        let now = self.now;
        self.buckets.entry(key).or_default().proofs.push(MProof { lib: i, nullifiers: nulls, volume: volume_of(&lp.pis, self.cfg.n), admitted: now });
        (PushWant::Admit, 1)
    }
}

// ------------------------------------------------------------------ execution

pub struct Outcome {
    /// (signature, description) of the first violation per property prefix
    pub violations: Vec<(String, String)>,
    pub feats: Feats,
    pub steps_done: usize,
}

#[derive(Default, Clone, Debug)]
pub struct Feats {
    admitted: usize,
    rejected_rules: HashSet<&'static str>,
    admitted_after_eviction: bool,
    eviction_emptied_bucket: bool,
    recreated_key: bool,
    snapshot_between_evictions: bool,
    window_restart_after_exhaustion: bool,
    failed_verification: bool,
    evictions: usize,
    snapshots: usize,
}

fn dur(ns: u64) -> Duration {
    Duration::from_nanos(ns)
}

/// Expiry ages: nanoseconds, except the top sentinel values which stand for the "never expire" idioms
/// (ages no clock can represent as `now - age`); in the model nothing is ever that old.
fn age_dur(ns: u64) -> Duration {
    match ns {
        u64::MAX => Duration::MAX,
        x if x == u64::MAX - 1 => Duration::from_secs(u64::MAX),
        x if x == u64::MAX - 2 => Duration::from_secs(i64::MAX as u64 + 1),
        x if x == u64::MAX - 3 => Duration::from_secs(i64::MAX as u64),
        x if x == u64::MAX - 4 => Duration::from_secs(1 << 40),
        _ => Duration::from_nanos(ns),
    }
}

fn bkey(k: &KeyT) -> BatchKey {
    BatchKey { block_hash: BytesDigest::try_from(k.0).expect("canonical"), asset_id: k.1, volume_fee_bps: k.2 }
}

fn key_t(k: &BatchKey) -> KeyT {
    (*k.block_hash, k.asset_id, k.volume_fee_bps)
}

/// Compare the full observable + dumped state of the pool with the model.
/// C20's invariants that need no model: they are statements about the real pool's own state (its dump,
/// its counters, its statistics) and therefore hold or fail whatever the history — also after an
/// operation whose result already disagreed with the model.
fn self_consistency(pool: &ProofPool, cfg: &Cfg, out: &mut Vec<(String, String)>) {
    let dump = pool.verif_dump();
    let mut v = |sig: &str, d: String| out.push((sig.to_string(), d));
    let mut want_index: BTreeMap<[u8; 32], KeyT> = BTreeMap::new();
    let mut shared = false;
    let mut total = 0usize;
    for b in &dump.buckets {
        let k = key_t(&b.key);
        if b.proofs.is_empty() {
            v("C20:empty-bucket", "a bucket with no proofs exists".to_string());
        }
        total += b.proofs.len();
        for q in &b.proofs {
            if key_of(&q.public_inputs) != k {
                v("C20:proof-in-wrong-bucket", "a pooled proof sits in a bucket whose key differs from its own".to_string());
            }
            let mut seen_here: HashSet<[u8; 32]> = HashSet::new();
            for nl in &q.nullifiers {
                if !seen_here.insert(**nl) {
                    continue; // repeat inside one proof
                }
                if want_index.insert(**nl, k).is_some() {
                    shared = true;
                }
            }
        }
    }
    if shared {
        v("C20:shared-nullifier", "two pooled proofs share a nullifier".to_string());
    }
    let got_index: BTreeMap<[u8; 32], KeyT> = dump.nullifier_index.iter().map(|(nl, k)| (**nl, key_t(k))).collect();
    if got_index != want_index && !shared {
        let extra = got_index.keys().filter(|k| !want_index.contains_key(*k)).count();
        let missing = want_index.keys().filter(|k| !got_index.contains_key(*k)).count();
        v("C20:index", format!("nullifier index differs from the pooled nullifiers: {} phantom entries, {} missing entries, {} total", extra, missing, got_index.len()));
    }
    if pool.len() != total || pool.num_buckets() != dump.buckets.len() || pool.is_empty() != (total == 0) {
        v("C20:counts", format!("len/num_buckets/is_empty = {}/{}/{}, the pool holds {} proofs in {} buckets", pool.len(), pool.num_buckets(), pool.is_empty(), total, dump.buckets.len()));
    }
    if total > cfg.max_proofs || dump.buckets.len() > cfg.max_buckets {
        v("C20:limits", format!("pool exceeds its limits: {} proofs (max {}), {} buckets (max {})", total, cfg.max_proofs, dump.buckets.len(), cfg.max_buckets));
    }
    // statistics against the pool's own contents
    let now = Instant::now();
    let mut got: Vec<(KeyT, usize, usize, Duration, u64, Option<Duration>)> = pool.bucket_stats().iter().map(|s| (key_t(&s.key), s.num_proofs, s.batch_size, s.oldest_age, s.total_volume, s.last_snapshot_age)).collect();
    got.sort();
    let mut want: Vec<(KeyT, usize, usize, Duration, u64, Option<Duration>)> = dump
        .buckets
        .iter()
        .map(|b| {
            (
                key_t(&b.key),
                b.proofs.len(),
                cfg.batch,
                b.proofs.iter().map(|q| now.saturating_duration_since(q.admitted_at)).max().unwrap_or_default(),
                b.proofs.iter().fold(0u64, |a, q| a.saturating_add(q.volume)),
                b.last_snapshot_at.map(|t| now.saturating_duration_since(t)),
            )
        })
        .collect();
    want.sort();
    if got != want {
        v("C20:stats", format!("bucket_stats {:?} differ from the pool's own contents {:?}", got.iter().map(|g| (g.1, g.3, g.4, g.5)).collect::<Vec<_>>(), want.iter().map(|g| (g.1, g.3, g.4, g.5)).collect::<Vec<_>>()));
    }
}

fn compare_state(pool: &ProofPool, m: &Model, lib: &Library, base: Instant, out: &mut Vec<(String, String)>) {
    let dump = pool.verif_dump();
    let mut v = |sig: &str, d: String| out.push((sig.to_string(), d));
    // buckets
    let dkeys: Vec<KeyT> = dump.buckets.iter().map(|b| key_t(&b.key)).collect();
    let mkeys: Vec<KeyT> = m.buckets.keys().copied().collect();
    let mut dk_sorted = dkeys.clone();
    dk_sorted.sort();
    if dk_sorted != mkeys {
        v("C21:bucket-set", format!("pool holds buckets {:?}, model (settlement/expiry/removal only) says {:?}", dkeys.len(), mkeys.len()));
    }
    for b in &dump.buckets {
        let k = key_t(&b.key);
        if b.proofs.is_empty() {
            v("C20:empty-bucket", "a bucket with no proofs exists".to_string());
        }
        for q in &b.proofs {
            if key_of(&q.public_inputs) != k {
                v("C20:proof-in-wrong-bucket", "a pooled proof sits in a bucket whose key differs from its own".to_string());
            }
        }
        if let Some(mb) = m.buckets.get(&k) {
            let dl: Vec<&Vec<u64>> = b.proofs.iter().map(|q| &q.public_inputs).collect();
            let ml: Vec<&Vec<u64>> = mb.proofs.iter().map(|p| &lib.proofs[p.lib].pis).collect();
            if dl != ml {
                v("C21:bucket-contents", format!("bucket holds {} proofs, model says {} (order = admission order)", dl.len(), ml.len()));
            } else {
                for (q, p) in b.proofs.iter().zip(mb.proofs.iter()) {
                    let qn: Vec<[u8; 32]> = q.nullifiers.iter().map(|x| **x).collect();
                    if qn != p.nullifiers || q.volume != p.volume {
                        v("C20:proof-metadata", "pooled proof nullifiers/volume differ from its public inputs".to_string());
                    }
                    if q.admitted_at.saturating_duration_since(base) != dur(p.admitted) {
                        v("C20:admission-time", "admission time differs from the (frozen) time of the push".to_string());
                    }
                }
            }
            if b.last_snapshot_at.map(|t| t.saturating_duration_since(base)) != mb.last_snapshot.map(dur) {
                v("C21:snapshot-mark", "snapshot mark differs from the model (only snapshot_batch may set it)".to_string());
            }
        }
    }
    // nullifier index == exactly the pooled nullifiers -> their bucket
    let mut want_index: BTreeMap<[u8; 32], KeyT> = BTreeMap::new();
    let mut shared = false;
    for b in &dump.buckets {
        for q in &b.proofs {
            let mut seen_here: HashSet<[u8; 32]> = HashSet::new();
            for nl in &q.nullifiers {
                if !seen_here.insert(**nl) {
                    continue; // repeat inside one proof
                }
                if want_index.insert(**nl, key_t(&b.key)).is_some() {
                    shared = true;
                }
            }
        }
    }
    if shared {
        v("C20:shared-nullifier", "two pooled proofs share a nullifier".to_string());
    }
    let got_index: BTreeMap<[u8; 32], KeyT> = dump.nullifier_index.iter().map(|(nl, k)| (**nl, key_t(k))).collect();
    if got_index != want_index && !shared {
        let extra = got_index.keys().filter(|k| !want_index.contains_key(*k)).count();
        let missing = want_index.keys().filter(|k| !got_index.contains_key(*k)).count();
        v("C20:index", format!("nullifier index differs from the pooled nullifiers: {} phantom entries, {} missing entries, {} total", extra, missing, got_index.len()));
    }
    // counts and limits
    if pool.len() != m.len() || pool.num_buckets() != m.buckets.len() || pool.is_empty() != m.buckets.is_empty() {
        v("C20:counts", format!("len/num_buckets/is_empty = {}/{}/{}, model {}/{}", pool.len(), pool.num_buckets(), pool.is_empty(), m.len(), m.buckets.len()));
    }
    if pool.len() > m.cfg.max_proofs || pool.num_buckets() > m.cfg.max_buckets {
        v("C20:limits", format!("pool exceeds its limits: {} proofs (max {}), {} buckets (max {})", pool.len(), m.cfg.max_proofs, pool.num_buckets(), m.cfg.max_buckets));
    }
    // statistics
    let stats = pool.bucket_stats();
    let mut got: Vec<(KeyT, usize, usize, Duration, u64, Option<Duration>)> = stats.iter().map(|s| (key_t(&s.key), s.num_proofs, s.batch_size, s.oldest_age, s.total_volume, s.last_snapshot_age)).collect();
    got.sort();
    let want: Vec<(KeyT, usize, usize, Duration, u64, Option<Duration>)> = m
        .buckets
        .iter()
        .map(|(k, b)| {
            (
                *k,
                b.proofs.len(),
                m.cfg.batch,
                b.proofs.iter().map(|p| dur(m.now - p.admitted)).max().unwrap_or_default(),
                b.proofs.iter().fold(0u64, |a, p| a.saturating_add(p.volume)),
                b.last_snapshot.map(|t| dur(m.now - t)),
            )
        })
        .collect();
    for st in stats.iter() {
        if st.is_full() != (st.num_proofs >= m.cfg.batch) {
            v("C20:stats", format!("BucketStats::is_full() = {} for {} pooled proofs at batch size {}", st.is_full(), st.num_proofs, m.cfg.batch));
        }
    }
    if got != want {
        v("C20:stats", format!("bucket_stats {:?} differ from the pooled contents {:?}", got.iter().map(|g| (g.1, g.3, g.4, g.5)).collect::<Vec<_>>(), want.iter().map(|g| (g.1, g.3, g.4, g.5)).collect::<Vec<_>>()));
    }
}

fn state_fingerprint(pool: &ProofPool, base: Instant) -> String {
    let d = pool.verif_dump();
    let mut idx: Vec<String> = d.nullifier_index.iter().map(|(n, k)| format!("{}>{}", hex::encode(**n), hex::encode(*k.block_hash))).collect();
    idx.sort();
    format!(
        "{:?}|{:?}|{}|{}",
        d.buckets.iter().map(|b| (hex::encode(*b.key.block_hash), b.key.asset_id, b.key.volume_fee_bps, b.proofs.iter().map(|q| (crate::util::fnv_u64s(&q.public_inputs), q.admitted_at.saturating_duration_since(base))).collect::<Vec<_>>(), b.last_snapshot_at.map(|t| t.saturating_duration_since(base)))).collect::<Vec<_>>(),
        idx,
        pool.len(),
        pool.num_buckets()
    )
}

/// Run one history. Stops at the first step with a violation.
pub fn execute(lib: &Library, cfg: &Cfg, ops: &[Op]) -> Outcome {
    vclock::arm(0);
    let base = Instant::now();
    let mut viol: Vec<(String, String)> = vec![];
    let mut feats = Feats::default();
    let limits = PoolLimits { max_proofs: cfg.max_proofs, max_buckets: cfg.max_buckets, max_verifies_per_window: cfg.max_verifies, verify_window: if cfg.window_ns == u64::MAX { Duration::MAX } else { dur(cfg.window_ns) } };
    let mut pool = match ProofPool::new(lib.data.verifier_data(), cfg.n, cfg.batch, limits) {
        Ok(p) => p,
        Err(e) => {
            vclock::disarm();
            return Outcome { violations: vec![("INFRA:pool-new".into(), e.to_string())], feats, steps_done: 0 };
        }
    };
    let mut m = Model { cfg: cfg.clone(), buckets: BTreeMap::new(), window_start: 0, verifies: 0, now: 0 };
    let mut ever_keys: HashSet<KeyT> = HashSet::new();
    let mut emptied_keys: HashSet<KeyT> = HashSet::new();
    let mut last_evicted_bucket: Option<KeyT> = None;
    let mut snapshot_since_evict: Option<KeyT> = None;
    let mut exhausted_in_window = false;
    let mut steps = 0;
    for (si, op) in ops.iter().enumerate() {
        steps = si + 1;
        let at = |s: &str| format!("step {} ({}): {}", si, op_json(op), s);
        match op {
            Op::Advance(d) => {
                m.now += d;
                vclock::arm(m.now);
            }
            Op::Push(i) => {
                let i = *i % lib.proofs.len();
                let before_fp = state_fingerprint(&pool, base);
                let calls0 = verif_hooks::verify_calls();
                let proof = lib.proofs[i].proof.clone();
                let r = catch(|| pool.push(proof));
                let calls = verif_hooks::verify_calls() - calls0;
                let window_before = (m.window_start, m.verifies);
                let (want, want_calls) = m.push(lib, i);
                if m.window_start != window_before.0 && exhausted_in_window {
                    feats.window_restart_after_exhaustion = true;
                    exhausted_in_window = false;
                }
                let r = match r {
                    Err(p) => {
                        viol.push(("C19:push-panic".into(), at(&format!("push panicked: {}", p))));
                        break;
                    }
                    Ok(r) => r,
                };
                let got_ok = r.as_ref().ok().map(key_t);
                match want {
                    PushWant::Admit => {
                        feats.admitted += 1;
                        let k = key_of(&lib.proofs[i].pis);
                        if feats.evictions > 0 {
                            feats.admitted_after_eviction = true;
                        }
                        if emptied_keys.contains(&k) {
                            feats.recreated_key = true;
                        }
                        ever_keys.insert(k);
                        if got_ok != Some(k) {
                            viol.push(("C19:rejects-admissible".into(), at(&format!("model admits (all documented conditions hold) but push returned {:?}", r.as_ref().map(|_| ()).map_err(|e| e.to_string())))));
                        }
                    }
                    w => {
                        feats.rejected_rules.insert(match w {
                            PushWant::Full => "full",
                            PushWant::Malformed => "malformed",
                            PushWant::Dummy => "dummy",
                            PushWant::BudgetExhausted => "budget",
                            PushWant::Invalid => "invalid",
                            PushWant::BucketLimit => "bucket-limit",
                            _ => "duplicate",
                        });
                        if w == PushWant::Invalid {
                            feats.failed_verification = true;
                        }
                        if w == PushWant::BudgetExhausted {
                            exhausted_in_window = true;
                        }
                        if got_ok.is_some() {
                            viol.push((format!("C19:admits:{:?}", w), at(&format!("push admitted a proof the documented rules reject ({:?})", w))));
                        } else if state_fingerprint(&pool, base) != before_fp {
                            viol.push(("C19:rejected-push-changes-state".into(), at(&format!("a rejected push ({:?}) changed the pool state", w))));
                        }
                    }
                }
                // verification accounting (C19 ordering + C22 budget)
                if calls != want_calls {
                    let sig = match (want, calls) {
                        (PushWant::BudgetExhausted, c) if c > 0 => "C22:verifies-with-exhausted-budget".to_string(),
                        (PushWant::BucketLimit, 0) | (PushWant::Duplicate, 0) => format!("C19:{:?}-before-verification", want),
                        (PushWant::Full, _) | (PushWant::Malformed, _) | (PushWant::Dummy, _) => format!("C19:verifies-on-{:?}", want),
                        (_, 0) if got_ok.is_none() && matches!(want, PushWant::Admit | PushWant::Invalid) => "C22:budget-rejects-early".to_string(),
                        _ => "C22:verify-call-count".to_string(),
                    };
                    viol.push((sig, at(&format!("push performed {} verification(s), model says {} ({:?}; {} of {} used in the current window)", calls, want_calls, want, m.verifies, m.cfg.max_verifies))));
                }
                if m.verifies > m.cfg.max_verifies {
                    viol.push(("C22:model".into(), "model exceeded its own budget".into()));
                }
            }
            Op::EvictSettled(sel) => {
                let settled: HashSet<[u8; 32]> = sel.iter().map(|j| if *j < lib.nullifiers.len() { refm::d4_to_bytes(&lib.nullifiers[*j]) } else { refm::d4_to_bytes(&[*j as u64, 9, 9, 9]) }).collect();
                let settled_bd: HashSet<BytesDigest> = settled.iter().map(|b| BytesDigest::try_from(*b).unwrap()).collect();
                let mut want = 0;
                let mut touched: Vec<KeyT> = vec![];
                for (k, b) in m.buckets.iter_mut() {
                    let before = b.proofs.len();
                    b.proofs.retain(|p| !p.nullifiers.iter().any(|x| settled.contains(x)));
                    if b.proofs.len() != before {
                        want += before - b.proofs.len();
                        touched.push(*k);
                    }
                }
                for k in &touched {
                    if m.buckets[k].proofs.is_empty() {
                        m.buckets.remove(k);
                        emptied_keys.insert(*k);
                        feats.eviction_emptied_bucket = true;
                    }
                    if last_evicted_bucket == Some(*k) && snapshot_since_evict == Some(*k) {
                        feats.snapshot_between_evictions = true;
                    }
                    last_evicted_bucket = Some(*k);
                    snapshot_since_evict = None;
                }
                if want > 0 {
                    feats.evictions += 1;
                }
                match catch(|| pool.evict_settled(&settled_bd)) {
                    Err(p) => viol.push(("C21:evict_settled-panic".into(), at(&p))),
                    Ok(got) if got != want => viol.push(("C21:evict_settled-count".into(), at(&format!("evict_settled reported {} evictions, {} pooled proofs carry a settled nullifier", got, want)))),
                    _ => {}
                }
            }
            Op::EvictOlderThan(d) => {
                let mut want = 0;
                let now = m.now;
                let mut touched = vec![];
                for (k, b) in m.buckets.iter_mut() {
                    let before = b.proofs.len();
                    b.proofs.retain(|p| !(now - p.admitted > *d));
                    if b.proofs.len() != before {
                        want += before - b.proofs.len();
                        touched.push(*k);
                    }
                }
                for k in &touched {
                    if m.buckets[k].proofs.is_empty() {
                        m.buckets.remove(k);
                        emptied_keys.insert(*k);
                        feats.eviction_emptied_bucket = true;
                    }
                    if last_evicted_bucket == Some(*k) && snapshot_since_evict == Some(*k) {
                        feats.snapshot_between_evictions = true;
                    }
                    last_evicted_bucket = Some(*k);
                    snapshot_since_evict = None;
                }
                if want > 0 {
                    feats.evictions += 1;
                }
                match catch(|| pool.evict_older_than(age_dur(*d))) {
                    Err(p) => viol.push(("C21:evict_older_than-panic".into(), at(&p))),
                    Ok(got) if got != want => viol.push(("C21:evict_older_than-count".into(), at(&format!("evict_older_than reported {}, {} pooled proofs are older than the cutoff", got, want)))),
                    _ => {}
                }
            }
            Op::Snapshot(ki) => {
                let key = if *ki < lib.keys.len() { lib.keys[*ki] } else { (refm::d4_to_bytes(&[1, 2, 3, 4]), 1, 1) };
                let before_fp = state_fingerprint(&pool, base);
                let r = catch(|| pool.snapshot_batch(&bkey(&key)));
                let now = m.now;
                let want: Option<Vec<usize>> = m.buckets.get_mut(&key).map(|b| {
                    b.last_snapshot = Some(now);
                    b.proofs.iter().take(cfg.batch).map(|p| p.lib).collect()
                });
                feats.snapshots += 1;
                if want.is_some() {
                    snapshot_since_evict = Some(key);
                }
                match r {
                    Err(p) => viol.push(("C21:snapshot-panic".into(), at(&p))),
                    Ok(got) => {
                        let got_pis: Option<Vec<Vec<u64>>> = got.as_ref().map(|v| v.iter().map(|p| p.public_inputs.iter().map(|f| f.to_canonical_u64()).collect()).collect());
                        let want_pis: Option<Vec<Vec<u64>>> = want.as_ref().map(|v| v.iter().map(|i| lib.proofs[*i].pis.clone()).collect());
                        if got_pis != want_pis {
                            viol.push(("C21:snapshot-contents".into(), at(&format!("snapshot returned {:?} proofs, expected the oldest min(count, batch) = {:?} in admission order", got_pis.as_ref().map(|v| v.len()), want_pis.as_ref().map(|v| v.len())))));
                        }
                        if let Some(batch) = &got {
                            if !batch.is_empty() {
                                if let Err(e) = verif_preflight_private_batch_proofs(batch, cfg.batch, &lib.data.verifier_data()) {
                                    viol.push(("C21:snapshot-fails-preflight".into(), at(&format!("snapshot batch is rejected by the public-batch preflight: {}", e))));
                                }
                            }
                        }
                        if want.is_none() && state_fingerprint(&pool, base) != before_fp {
                            viol.push(("C21:snapshot-changes-state".into(), at("snapshot of an absent bucket changed the pool")));
                        }
                    }
                }
            }
            Op::RemoveBucket(ki) => {
                let key = if *ki < lib.keys.len() { lib.keys[*ki] } else { (refm::d4_to_bytes(&[1, 2, 3, 4]), 1, 1) };
                let want: Vec<usize> = m.buckets.remove(&key).map(|b| b.proofs.iter().map(|p| p.lib).collect()).unwrap_or_default();
                if !want.is_empty() {
                    emptied_keys.insert(key);
                    feats.evictions += 1;
                }
                match catch(|| pool.remove_bucket(&bkey(&key))) {
                    Err(p) => viol.push(("C21:remove_bucket-panic".into(), at(&p))),
                    Ok(got) => {
                        let got_pis: Vec<Vec<u64>> = got.iter().map(|p| p.public_inputs.iter().map(|f| f.to_canonical_u64()).collect()).collect();
                        let want_pis: Vec<Vec<u64>> = want.iter().map(|i| lib.proofs[*i].pis.clone()).collect();
                        if got_pis != want_pis {
                            viol.push(("C21:remove_bucket-returns".into(), at(&format!("remove_bucket returned {} proofs, the bucket held {} (in admission order)", got_pis.len(), want_pis.len()))));
                        }
                    }
                }
            }
            Op::Stats => {}
        }
        // a failed operation-level check means pool and model have already diverged:
        // report that root cause only, not its downstream state differences
        if viol.is_empty() {
            compare_state(&pool, &m, lib, base, &mut viol);
        } else {
            // ... except the invariants of the pool's own state, which need no model (C20)
            self_consistency(&pool, &m.cfg, &mut viol);
        }
        if !viol.is_empty() {
            for v in viol.iter_mut() {
                if !v.1.starts_with("step ") {
                    v.1 = format!("after step {} ({}): {}", si, op_json(op), v.1);
                }
            }
            break;
        }
    }
    vclock::disarm();
    let _ = ever_keys;
    Outcome { violations: viol, feats, steps_done: steps }
}

fn history_json(cfg: &Cfg, ops: &[Op]) -> Value {
    json!({"kind": "pool_history", "cfg": cfg_json(cfg), "ops": ops.iter().map(op_json).collect::<Vec<_>>()})
}

pub fn run(ctx: &Ctx, which: Which) {
    let n_hist = ctx.tier.pick(6_400usize, 200_000);
    let max_len = ctx.tier.pick(40usize, 80);
    ctx.set_rule(&format!(
        "{} histories of up to {} operations (Push of a pre-proved library proof, EvictSettled(set), EvictOlderThan(d), Snapshot(key), RemoveBucket(key), Advance(d), Stats) over ProofPool instances with inner_num_leaves in {{1,2}}, batch 1..3, max_proofs batch..batch+3, max_buckets 1..3, max_verifies 1..5 (each occasionally usize::MAX = unlimited), window 10..60 virtual seconds, fractional-second and sub-second windows (occasionally 1 ns or Duration::MAX), clock steps at the window length, its whole-second floor and its fractional part, expiry ages including the unrepresentable \"never expire\" idioms; \
         library per N: 110 valid proofs over 5 keys (two keys sharing a block hash, one key per asset/fee variation) with nullifiers from a pool of 10 (intra-proof repeats, saturating volumes), 6 dummy-key proofs, ~20 tampered proofs (valid length, fail verification, some claiming pooled nullifiers / other keys), 8 wrong-length proofs; Advance in {{0,1ns,W-1,W,W+1,2W,..}}. \
         Interpreted against the real pool and a model written from the statements under a frozen virtual clock; after every operation: push result/returned key/number of verifier calls vs the documented admission order, rejected push leaves the dumped state unchanged, dumped buckets/index/marks/ages vs model, bucket_stats exact, eviction/removal counts and returned proofs, snapshots pass the public-batch preflight. \
         Failing histories are shrunk by delta debugging. This check reports the {} clauses. Non-trivial: {}.",
        n_hist, max_len, which.id(),
        match which {
            Which::C19 => "history in which >= 2 distinct rules rejected and >= 1 push was admitted after an eviction",
            Which::C20 => "history with an eviction that empties a bucket and a later re-creation of the same key",
            Which::C21 => "history with a snapshot between two evictions of the same bucket",
            Which::C22 => "history with a window restart after an exhausted window and >= 1 failed verification",
        }));
    ctx.assume("budget window semantics as documented in pool.rs: fixed window starting at pool creation, restarted (start := now) by the first push that reaches the budget stage at least one window after the start");
    ctx.assume("time is the harness-owned virtual CLOCK_MONOTONIC (frozen between Advance operations); no sleep or wall-clock value decides anything");
    if let Err(e) = vclock::self_test() {
        ctx.tally.lock().unwrap().infra(format!("virtual clock self-test failed: {}", e));
        return;
    }
    let libs: Vec<Library> = match std::thread::scope(|s| {
        let hs: Vec<_> = [1usize, 2].iter().map(|&n| s.spawn(move || Library::build(n))).collect();
        hs.into_iter().map(|h| h.join().unwrap_or_else(|_| Err("library build panicked".into()))).collect::<Result<Vec<_>, String>>()
    }) {
        Ok(l) => l,
        Err(e) => {
            ctx.tally.lock().unwrap().infra(format!("library: {}", e));
            return;
        }
    };
    let libs = &libs;
    let workers = ctx.n_workers();
    let prefix = format!("{}:", which.id());
    ctx.par(workers, |wi, t| {
        let mut rng = Rng::fork(ctx.seed, wi as u64);
        for c in 0..n_hist.div_ceil(workers) {
            let lib = &libs[c % 2];
            let cfg = gen_cfg(&mut rng, lib.n);
            let len = 8 + rng.usize(max_len - 7);
            let heavy = which == Which::C22 || rng.chance(1, 3);
            let ops = gen_history(&mut rng, lib, &cfg, len, heavy);
            let out = execute(lib, &cfg, &ops);
            t.evals(out.steps_done as u64);
            t.count("histories", 1);
            t.count("operations", out.steps_done as u64);
            let f = &out.feats;
            for r in &f.rejected_rules {
                t.class(&format!("rejected-by:{}", r));
            }
            t.count("pushes admitted", f.admitted as u64);
            let nontrivial = match which {
                Which::C19 => f.rejected_rules.len() >= 2 && f.admitted_after_eviction,
                Which::C20 => f.eviction_emptied_bucket && f.recreated_key,
                Which::C21 => f.snapshot_between_evictions,
                Which::C22 => f.window_restart_after_exhaustion && f.failed_verification,
            };
            if nontrivial {
                t.nontrivial(fnv_str(&history_json(&cfg, &ops).to_string()));
            }
            t.class(&format!("history|nontrivial={}", nontrivial));
            if c < 1 {
                t.sample(json!({"cfg": cfg_json(&cfg), "ops": ops.iter().take(14).map(op_json).collect::<Vec<_>>(), "n_ops": ops.len(), "nontrivial": nontrivial}));
            }
            for (sig, desc) in &out.violations {
                if sig.starts_with("INFRA") {
                    t.infra(desc.clone());
                    continue;
                }
                if !sig.starts_with(&prefix) {
                    t.count(&format!("violations of other pool properties observed (reported by their own check): {}", &sig[..3]), 1);
                    continue;
                }
                // shrink the history while the same signature reproduces
                let small = ddmin(ops.clone(), |cand| execute(lib, &cfg, cand).violations.iter().any(|(s, _)| s == sig));
                let d2 = execute(lib, &cfg, &small).violations.iter().find(|(s, _)| s == sig).map(|x| x.1.clone()).unwrap_or(desc.clone());
                t.violation(sig.clone(), format!("{} [history shrunk from {} to {} operations]", d2, ops.len(), small.len()), history_json(&cfg, &small));
            }
        }
    });
}

pub fn replay(case: &Value, id: &str) -> Result<bool, String> {
    let cfg = cfg_from_json(&case["cfg"]).ok_or("cfg")?;
    let ops: Vec<Op> = case["ops"].as_array().ok_or("ops")?.iter().filter_map(op_from_json).collect();
    let lib = Library::build(cfg.n)?;
    let out = execute(&lib, &cfg, &ops);
    for (s, d) in &out.violations {
        eprintln!("replay: [{}] {}", s, d);
    }
    Ok(out.violations.iter().any(|(s, _)| s.starts_with(id)))
}
