//! C25 (byte/digest/integer encodings), C26 (compact node hash), C27 (native Merkle
//! proofs = reference fold = circuit) — E2 native properties with reference oracles.

use plonky2::field::types::{Field, PrimeField64};
use serde_json::{json, Value};
use wormhole_circuit::sensitive::Secret;
use zk_circuits_common::circuit::F;
use zk_circuits_common::serialization as ser;
use zk_circuits_common::utils as cu;
use zk_circuits_common::utils::BytesDigest;
use zk_circuits_common::zk_merkle::{self as zm, ZkMerkleProof};

use crate::leaf::{HonestParams, LeafCircuit, LeafW};
use crate::refm::{self, P};
use crate::util::rng::Rng;
use crate::util::{catch, fnv, fnv_u64s, Ctx, Tally};

const CAP: usize = 1 << 20;
const Q: u128 = 10_000_000_000;

fn fv(v: &[u64]) -> Vec<F> {
    v.iter().map(|x| F::from_noncanonical_u64(*x)).collect()
}
fn uv(v: &[F]) -> Vec<u64> {
    v.iter().map(|x| x.to_canonical_u64()).collect()
}

// =============================================================== C25 =========

fn gen_bytes(rng: &mut Rng, c: usize) -> Vec<u8> {
    let len = match c % 8 {
        0..=3 => c / 8 % 65, // every length 0..64 by quota
        4 => rng.usize(4097),
        5 => 4 * rng.usize(64), // aligned
        _ => rng.usize(300),
    };
    let mut b = rng.bytes(len);
    match rng.below(8) {
        0 => b.iter_mut().for_each(|x| *x = 0),
        1 => b.iter_mut().for_each(|x| *x = 0xFF),
        2 => {
            if let Some(l) = b.last_mut() {
                *l = 0
            }
        }
        3 => {
            if let Some(l) = b.last_mut() {
                *l = 1
            }
        }
        4 => {
            let n = b.len();
            if n >= 3 {
                b[n - 3] = 1;
                b[n - 2] = 0;
                b[n - 1] = 0;
            }
        }
        _ => {}
    }
    b
}

/// Strings that a terminator-less or padding-confused encoding would merge with `b`.
fn cluster(b: &[u8]) -> Vec<Vec<u8>> {
    let mut out = vec![b.to_vec()];
    for suffix in [&[0u8][..], &[0, 0], &[0, 0, 0], &[0, 0, 0, 0], &[1], &[1, 0], &[0, 1], &[1, 0, 0, 0]] {
        let mut x = b.to_vec();
        x.extend_from_slice(suffix);
        out.push(x);
    }
    let mut s = b.to_vec();
    while s.last() == Some(&0) {
        s.pop();
        out.push(s.clone());
    }
    if let Some(&1) = s.last() {
        s.pop();
        out.push(s.clone());
    }
    out.sort();
    out.dedup();
    out
}

fn c25_bytes_case(b: &[u8], t: &mut Tally) {
    t.eval();
    let case = || json!({"kind": "c25_bytes", "bytes_hex": hex::encode(b)});
    let enc = match catch(|| ser::bytes_to_felts(b)) {
        Err(p) => {
            t.violation("C25:bytes_to_felts:panic", format!("bytes_to_felts panicked on {} bytes: {}", b.len(), p), case());
            return;
        }
        Ok(e) => e,
    };
    match (&enc, b.len() <= CAP) {
        (Ok(_), false) => t.violation("C25:cap:accepts-oversized", format!("bytes_to_felts accepts {} bytes (> 1 MiB)", b.len()), json!({"kind": "c25_len", "len": b.len()})),
        (Err(e), true) => t.violation("C25:cap:rejects-in-bounds", format!("bytes_to_felts rejects {} bytes (<= 1 MiB): {}", b.len(), e), if b.len() > 4096 { json!({"kind": "c25_len", "len": b.len()}) } else { case() }),
        _ => {}
    }
    let Ok(enc) = enc else { return };
    // utils wrapper agrees
    if let Ok(Ok(w)) = catch(|| cu::bytes_to_felts(b)) {
        if w != enc {
            t.violation("C25:wrapper-differs", "utils::bytes_to_felts differs from serialization::bytes_to_felts".to_string(), case());
        }
    }
    match catch(|| ser::felts_to_bytes(&enc)) {
        Err(p) => t.violation("C25:felts_to_bytes:panic", format!("felts_to_bytes panicked on an encoder image: {}", p), case()),
        Ok(Err(e)) => t.violation("C25:roundtrip:rejects-image", format!("felts_to_bytes rejects the encoding of a {}-byte string: {}", b.len(), e), if b.len() > 4096 { json!({"kind": "c25_len", "len": b.len()}) } else { case() }),
        Ok(Ok(back)) => {
            if back != b {
                t.violation("C25:roundtrip:differs", format!("felts_to_bytes(bytes_to_felts(b)) != b for a {}-byte string", b.len()), if b.len() > 4096 { json!({"kind": "c25_len", "len": b.len()}) } else { case() });
            }
        }
    }
    if uv(&enc) == refm::bytes_to_felts_ref(b) {
        t.count("encoding equals the 4-bytes-per-felt + 0x01 terminator reference (diagnostic)", 1);
    } else {
        t.count("encoding differs from the reference encoding (diagnostic, not a verdict)", 1);
    }
}

fn c25_injective_case(b: &[u8], t: &mut Tally) {
    let cl = cluster(b);
    let encs: Vec<Option<Vec<u64>>> = cl.iter().map(|x| ser::bytes_to_felts(x).ok().map(|e| uv(&e))).collect();
    t.evals(cl.len() as u64);
    for i in 0..cl.len() {
        for j in i + 1..cl.len() {
            if let (Some(a), Some(c)) = (&encs[i], &encs[j]) {
                if a == c {
                    t.violation(
                        "C25:injectivity",
                        format!("distinct byte strings ({} and {} bytes) have the same felt encoding", cl[i].len(), cl[j].len()),
                        json!({"kind": "c25_pair", "a_hex": hex::encode(&cl[i]), "b_hex": hex::encode(&cl[j])}),
                    );
                }
            }
        }
    }
}

fn gen_felt_vec(rng: &mut Rng) -> Vec<u64> {
    let b = {
        let l = rng.usize(40);
        rng.bytes(l)
    };
    let mut v = refm::bytes_to_felts_ref(&b);
    match rng.below(10) {
        0 => {
            let i = rng.usize(v.len());
            v[i] = *rng.pick(&[1u64 << 32, (1 << 32) + 1, P - 1, 1 << 40]);
        }
        1 => {
            let n = v.len();
            v[n - 1] = 0;
        }
        2 => {
            let n = v.len();
            v[n - 1] = 1u64 << (8 * rng.below(4));
        }
        3 => {
            // marker followed by garbage in a higher byte
            let n = v.len();
            let k = rng.below(3);
            v[n - 1] = (1u64 << (8 * k)) | ((2 + rng.below(250)) << (8 * (k + 1)));
        }
        4 => v.clear(),
        5 => {
            let n = v.len();
            v[n - 1] = rng.u32() as u64;
        }
        6 => {
            let n = v.len();
            v[n - 1] = 0x0100_0000 | rng.below(1 << 24);
        }
        7 => v = (0..rng.usize(12)).map(|_| rng.u32() as u64).collect(),
        _ => {}
    }
    // representation alias: the same field element stored as the raw limb value + p
    if !v.is_empty() && rng.chance(1, 6) {
        let i = rng.usize(v.len());
        if v[i] < 0xFFFF_FFFF - 1 {
            v[i] += P;
        }
    }
    v
}

fn c25_decode_case(v: &[u64], t: &mut Tally) {
    t.eval();
    let case = || json!({"kind": "c25_felts", "felts": v});
    let f = fv(v);
    match catch(|| ser::felts_to_bytes(&f)) {
        Err(p) => t.violation("C25:felts_to_bytes:panic", format!("felts_to_bytes panicked on a {}-felt vector: {}", v.len(), p), case()),
        Ok(Ok(b)) => {
            t.class("decode|accepted");
            let canon: Vec<u64> = uv(&f);
            match ser::bytes_to_felts(&b) {
                Ok(e) if uv(&e) == canon => {}
                _ => t.violation("C25:decode:accepts-non-image", format!("felts_to_bytes accepts a {}-felt vector that is not the encoding of the bytes it returns", v.len()), case()),
            }
            if refm::felts_to_bytes_ref(&canon).as_deref() != Some(&b[..]) {
                t.count("decoder differs from the reference decoder on an accepted vector (diagnostic)", 1);
            }
        }
        Ok(Err(_)) => {
            t.class("decode|rejected");
            // an image of an in-bounds string must be accepted (round-trip direction)
            if let Some(b) = refm::felts_to_bytes_ref(&uv(&f)) {
                if b.len() <= CAP && ser::bytes_to_felts(&b).map(|e| e == f).unwrap_or(false) {
                    t.violation("C25:roundtrip:rejects-image", "felts_to_bytes rejects a vector that is the encoder's image of an in-bounds string".to_string(), case());
                }
            }
        }
    }
}

fn edge_limb(rng: &mut Rng) -> u64 {
    match rng.below(10) {
        0 => 0,
        1 => 1,
        2 => 1 << 32,
        3 => P - 2,
        4 => P - 1,
        5 => P,
        6 => P + 1,
        7 => u64::MAX,
        _ => rng.u64(),
    }
}

fn c25_digest_case(rng: &mut Rng, t: &mut Tally) {
    t.eval();
    let limbs: [u64; 4] = [edge_limb(rng), edge_limb(rng), edge_limb(rng), edge_limb(rng)];
    let mut bytes = [0u8; 32];
    for i in 0..4 {
        bytes[i * 8..i * 8 + 8].copy_from_slice(&limbs[i].to_le_bytes());
    }
    let want = limbs.iter().all(|l| *l < P);
    let case = || json!({"kind": "c25_digest", "limbs": limbs});
    let near = limbs.iter().any(|l| l.abs_diff(P) <= 1);
    if near {
        t.nontrivial(fnv_u64s(&limbs));
    }
    t.class(if want { "digest|canonical" } else { "digest|non-canonical" });
    let checks: Vec<(&str, Result<bool, String>)> = vec![
        ("BytesDigest::try_from([u8;32])", catch(|| BytesDigest::try_from(bytes).is_ok())),
        ("BytesDigest::try_from(&[u8])", catch(|| BytesDigest::try_from(&bytes[..]).is_ok())),
        ("Secret::try_from", catch(|| Secret::try_from(bytes).is_ok())),
        (
            "Secret::new",
            catch(|| {
                let mut b = bytes;
                Secret::new(&mut b).is_ok()
            }),
        ),
    ];
    for (name, r) in checks {
        match r {
            Err(p) => t.violation(format!("C25:{}:panic", name), format!("{} panicked: {}", name, p), case()),
            Ok(got) if got != want => t.violation(
                format!("C25:{}:{}", name, if got { "accepts-non-canonical" } else { "rejects-canonical" }),
                format!("{} returned ok={} for limbs {:?} (all < p: {})", name, got, limbs, want),
                case(),
            ),
            _ => {}
        }
    }
    // wrong lengths
    for l in [0usize, 31, 33] {
        let v = vec![0u8; l];
        if let Ok(true) = catch(|| BytesDigest::try_from(&v[..]).is_ok()) {
            t.violation("C25:digest:length", format!("BytesDigest::try_from accepts a {}-byte slice", l), json!({"kind": "c25_digest_len", "len": l}));
        }
    }
    // the zk_merkle predicate and the 4-felt helper agree with the same rule
    match catch(|| zm::is_canonical_hash(&bytes)) {
        Err(p) => t.violation("C25:is_canonical_hash:panic", format!("is_canonical_hash panicked: {}", p), case()),
        Ok(got) if got != want => t.violation("C25:is_canonical_hash:wrong", format!("is_canonical_hash returned {} for limbs {:?} (all < p: {})", got, limbs, want), case()),
        _ => {}
    }
    if want {
        let fs: Vec<F> = limbs.iter().map(|l| F::from_canonical_u64(*l)).collect();
        match catch(|| cu::try_4_felts_to_bytes(&fs).ok().map(|d| *d)) {
            Err(p) => t.violation("C25:try_4_felts_to_bytes:panic", format!("try_4_felts_to_bytes panicked: {}", p), case()),
            Ok(got) if got != Some(bytes) => t.violation("C25:try_4_felts_to_bytes:wrong", format!("try_4_felts_to_bytes({:?}) is not the little-endian limb image", limbs), case()),
            _ => {}
        }
        if zm::felts_to_hash(&zm::hash_to_felts(&bytes)) != bytes || zm::hash_to_felts(&bytes).map(|f| f.to_canonical_u64()) != limbs {
            t.violation("C25:hash_to_felts:roundtrip", "hash_to_felts / felts_to_hash do not round-trip a canonical hash".to_string(), case());
        }
        for l in [0usize, 1, 3, 5, 8] {
            let v: Vec<F> = (0..l).map(|i| fs[i % 4]).collect();
            match catch(|| cu::try_4_felts_to_bytes(&v).is_ok()) {
                Err(p) => t.violation("C25:try_4_felts_to_bytes:panic", format!("try_4_felts_to_bytes panicked on {} felts: {}", l, p), case()),
                Ok(true) => t.violation("C25:try_4_felts_to_bytes:length", format!("try_4_felts_to_bytes accepts {} felts", l), case()),
                _ => {}
            }
        }
    }
    if want {
        let d = BytesDigest::try_from(bytes).unwrap();
        let felts = cu::bytes_to_digest(d);
        if uv(&felts) != limbs.to_vec() {
            t.violation("C25:digest:felts", "bytes_to_digest limbs differ from the little-endian 8-byte limbs".to_string(), case());
        }
        match catch(|| cu::digest_to_bytes(felts)) {
            Ok(back) if *back == bytes => {}
            Ok(_) => t.violation("C25:digest:roundtrip", "digest_to_bytes(bytes_to_digest(d)) != d".to_string(), case()),
            Err(p) => t.violation("C25:digest:panic", format!("digest_to_bytes panicked: {}", p), case()),
        }
        if ser::digest_to_bytes(&ser::bytes_to_digest(&bytes)) != bytes {
            t.violation("C25:digest:roundtrip", "serialization digest round trip differs".to_string(), case());
        }
        let s = Secret::try_from(bytes).unwrap();
        if uv(&s.expose_felts()) != limbs.to_vec() || *s.expose_digest() != bytes {
            t.violation("C25:secret:roundtrip", "Secret does not round-trip through felts/digest".to_string(), case());
        }
    }
}

/// Field element with value `v` (< p) in a generated *representation*: plonky2's Goldilocks keeps
/// unreduced limbs, so the value v < 2^32 - 1 can also be stored as the raw limb p + v (what
/// `from_noncanonical_u64`, a field addition or a release-mode proof deserialisation produce).
/// Decoders must go by the value.
pub fn felt_repr(rng: &mut Rng, v: u64) -> F {
    if v < 0xFFFF_FFFF - 1 {
        match rng.below(4) {
            0 => return F::from_noncanonical_u64(P + v),
            1 => return F::NEG_ONE + F::from_canonical_u64(v + 1),
            _ => {}
        }
    }
    F::from_canonical_u64(v)
}

fn c25_int_case(rng: &mut Rng, t: &mut Tally) {
    let l = |rng: &mut Rng| -> u64 {
        match rng.below(8) {
            0 => 0,
            1 => 0xFFFF_FFFF,
            2 => 1 << 32,
            3 => P - 1,
            4 => (1 << 32) + 1,
            _ => {
                if rng.bool() {
                    rng.u32() as u64
                } else {
                    rng.felt()
                }
            }
        }
    };
    // u64
    t.eval();
    let a = [l(rng), l(rng)];
    let want = if a.iter().all(|x| *x <= 0xFFFF_FFFF) { Some((a[0] << 32) | a[1]) } else { None };
    let fa = [felt_repr(rng, a[0]), felt_repr(rng, a[1])];
    for (name, got) in [("serialization::try_felts_to_u64", catch(|| ser::try_felts_to_u64(fa).ok())), ("utils::felts_to_u64", catch(|| cu::felts_to_u64(fa).ok()))] {
        match got {
            Err(p) => t.violation(format!("C25:{}:panic", name), p, json!({"kind": "c25_u64", "limbs": a})),
            Ok(g) if g != want => t.violation(format!("C25:{}", name), format!("{}({:?}) = {:?}, expected {:?}", name, a, g, want), json!({"kind": "c25_u64", "limbs": a})),
            _ => {}
        }
    }
    if a.iter().any(|x| x.abs_diff(1 << 32) <= 1) {
        t.nontrivial(fnv_u64s(&[64, a[0], a[1]]));
    }
    t.class(if want.is_some() { "u64|in-range" } else { "u64|limb>=2^32" });
    let x = rng.u64();
    if ser::try_felts_to_u64(ser::u64_to_felts(x)).ok() != Some(x) || uv(&ser::u64_to_felts(x)) != vec![x >> 32, x & 0xFFFF_FFFF] {
        t.violation("C25:u64:roundtrip", format!("u64_to_felts/try_felts_to_u64 do not invert each other at {}", x), json!({"kind": "c25_u64_rt", "x": x}));
    }
    // u128
    t.eval();
    let b = [l(rng), l(rng), l(rng), l(rng)];
    let want = if b.iter().all(|x| *x <= 0xFFFF_FFFF) { Some(((b[0] as u128) << 96) | ((b[1] as u128) << 64) | ((b[2] as u128) << 32) | b[3] as u128) } else { None };
    let fb = [felt_repr(rng, b[0]), felt_repr(rng, b[1]), felt_repr(rng, b[2]), felt_repr(rng, b[3])];
    for (name, got) in [("serialization::try_felts_to_u128", catch(|| ser::try_felts_to_u128(fb).ok())), ("utils::felts_to_u128", catch(|| cu::felts_to_u128(fb).ok()))] {
        match got {
            Err(p) => t.violation(format!("C25:{}:panic", name), p, json!({"kind": "c25_u128", "limbs": b})),
            Ok(g) if g != want => t.violation(format!("C25:{}", name), format!("{}({:?}) = {:?}, expected {:?}", name, b, g, want), json!({"kind": "c25_u128", "limbs": b})),
            _ => {}
        }
    }
    if b.iter().any(|x| x.abs_diff(1 << 32) <= 1) {
        t.nontrivial(fnv_u64s(&[128, b[0], b[1], b[2], b[3]]));
    }
    let y = ((rng.u64() as u128) << 64) | rng.u64() as u128;
    if ser::try_felts_to_u128(ser::u128_to_felts(y)).ok() != Some(y) {
        t.violation("C25:u128:roundtrip", format!("u128 round trip fails at {}", y), json!({"kind": "c25_u128_rt", "x": y.to_string()}));
    }
    // quantized amounts
    t.eval();
    // quantised values around the u32 bound, and values that are small modulo 2^32 / 2^64
    // (a truncating cast before the range check would accept them)
    let k: u128 = match rng.below(3) {
        0 => { let (r1, r2, r3) = (rng.below(1 << 30) as u128, rng.below(1 << 20) as u128, rng.below(1 << 32) as u128); *rng.pick(&[(1u128 << 64), (1u128 << 64) + 1234, (1u128 << 64) | 0xFFFF_FFFF, (1u128 << 64) | (1 << 32), 1u128 << 33, (1u128 << 33) + 7, 1u128 << 80, (1u128 << 94) | 5, r1 << 64, (r2 << 32) | r3]) }
        _ => *rng.pick(&[0u128, 1, 0xFFFF_FFFE, 0xFFFF_FFFF, 1 << 32, (1 << 32) + 1, 12345]),
    };
    let delta: i128 = *rng.pick(&[-1i128, 0, 1, (Q - 1) as i128, 5_000_000_000]);
    let n: u128 = if rng.chance(1, 6) { ((rng.u64() as u128) << 64) | rng.u64() as u128 } else { ((k * Q) as i128 + delta).max(0) as u128 };
    let q = n / Q;
    let want = if q > 0xFFFF_FFFF { None } else { Some(q as u64) };
    match catch(|| ser::try_u128_to_quantized_felt(n).ok().map(|f| f.to_canonical_u64())) {
        Err(p) => t.violation("C25:quantize:panic", p, json!({"kind": "c25_quant", "n": n.to_string()})),
        Ok(g) if g != want => t.violation("C25:quantize", format!("try_u128_to_quantized_felt({}) = {:?}, expected {:?}", n, g, want), json!({"kind": "c25_quant", "n": n.to_string()})),
        _ => {}
    }
    if let Some(qv) = want {
        if n % Q == 0 {
            let fqv = felt_repr(rng, qv);
            match catch(|| ser::try_felt_to_quantized_u128(fqv).ok()) {
                Ok(Some(b)) if b == n => {}
                other => t.violation("C25:dequantize", format!("try_felt_to_quantized_u128 does not invert quantisation at {}: {:?}", n, other), json!({"kind": "c25_quant", "n": n.to_string()})),
            }
        }
    }
    let fq = l(rng);
    let wantq = if fq <= 0xFFFF_FFFF { Some(fq as u128 * Q) } else { None };
    let ffq = felt_repr(rng, fq);
    match catch(|| ser::try_felt_to_quantized_u128(ffq).ok()) {
        Ok(g) if g == wantq => {}
        other => t.violation("C25:dequantize", format!("try_felt_to_quantized_u128({}) = {:?}, expected {:?}", fq, other, wantq), json!({"kind": "c25_dequant", "felt": fq})),
    }
    if (n as i128 - (0xFFFF_FFFFu128 * Q) as i128).abs() <= Q as i128 + 1 || n % Q == 0 || n % Q == Q - 1 {
        t.nontrivial(fnv(&n.to_le_bytes()));
    }
    t.class(if want.is_some() { "quantize|fits" } else { "quantize|exceeds-u32" });
}

pub fn run_c25(ctx: &Ctx) {
    let n_bytes = ctx.tier.pick(60_000usize, 2_000_000);
    let n_decode = ctx.tier.pick(150_000usize, 4_000_000);
    let n_digest = ctx.tier.pick(150_000usize, 3_000_000);
    let n_int = ctx.tier.pick(150_000usize, 3_000_000);
    let n_big = ctx.tier.pick(1usize, 6);
    ctx.set_rule(&format!(
        "byte strings: every length 0..64 by quota with content patterns (all 0, all 0xFF, trailing 0x00/0x01, ...1,0,0), random lengths to 4 KiB, aligned lengths, and {} rounds of lengths 2^20-1, 2^20, 2^20+1, 2^20+4 ({} strings); \
         per string a cluster of near-colliding strings (suffixes of zeros / 0x01, stripped trailing zeros) checked pairwise for distinct encodings; {} felt vectors (encoder images with one word corrupted: >=2^32, last word 0, marker in each byte position, marker followed by garbage, empty, arbitrary u32 words; above MAX_SERIALIZED_FELTS); \
         {} 32-byte digests with limbs from {{0,1,2^32,p-2,p-1,p,p+1,2^64-1,random}} through BytesDigest::try_from (array and slice), Secret::new, Secret::try_from; {} integer cases (u64/u128 limb decoding with limbs around 2^32 and p-1, quantised amounts around k*10^10 for k in {{0,1,2^32-1,2^32,2^32+1}} +-1). \
         Oracle: round trip, pairwise injectivity, cap, decode accepts only images, accept <=> all limbs < p, limb decode accept <=> limbs < 2^32 with the reference value, quantisation Err <=> n div 10^10 > 2^32-1. Non-trivial: a case touching a boundary (length = 0 mod 4 or at the cap, limb within 1 of 2^32 or p, amount within 1 of a quantisation boundary).",
        n_big, n_bytes, n_decode, n_digest, n_int));
    let workers = ctx.n_workers();
    ctx.par(workers, |wi, t| {
        let mut rng = Rng::fork(ctx.seed, wi as u64);
        for c in 0..n_bytes.div_ceil(workers) {
            let b = gen_bytes(&mut rng, c * workers + wi);
            c25_bytes_case(&b, t);
            c25_injective_case(&b, t);
            if b.len() % 4 == 0 {
                t.nontrivial(fnv(&b));
            }
            t.class(&format!("bytes|len%4={}|{}", b.len() % 4, if b.len() <= 64 { "<=64" } else { ">64" }));
            if c < 2 {
                t.sample(json!({"bytes_hex": hex::encode(&b[..b.len().min(24)]), "len": b.len()}));
            }
        }
        for c in 0..n_decode.div_ceil(workers) {
            let v = gen_felt_vec(&mut rng);
            c25_decode_case(&v, t);
            if c < 1 {
                t.sample(json!({"felt_vector": v}));
            }
        }
        for _ in 0..n_digest.div_ceil(workers) {
            c25_digest_case(&mut rng, t);
        }
        for _ in 0..n_int.div_ceil(workers) {
            c25_int_case(&mut rng, t);
        }
        // cap boundary (expensive: 1 MiB strings); spread over workers
        for r in 0..n_big {
            for (k, len) in [CAP - 1, CAP, CAP + 1, CAP + 4, CAP - 4].iter().enumerate() {
                if (r * 5 + k) % workers != wi {
                    continue;
                }
                let fill = rng.below(256) as u8;
                let mut b = vec![fill; *len];
                let n = b.len();
                b[n - 1] = rng.below(3) as u8;
                c25_bytes_case(&b, t);
                t.nontrivial(fnv_u64s(&[*len as u64, fill as u64, b[n - 1] as u64]));
                t.class(&format!("bytes|cap|len=2^20{:+}", *len as i64 - CAP as i64));
                // felt vectors at / above MAX_SERIALIZED_FELTS
                if *len >= CAP {
                    let nf = ser::MAX_SERIALIZED_FELTS + (*len - CAP);
                    let mut v = vec![F::from_canonical_u64(0x5a5a5a5a); nf];
                    v[nf - 1] = F::ONE;
                    t.eval();
                    match catch(|| ser::felts_to_bytes(&v)) {
                        Err(p) => t.violation("C25:felts_to_bytes:panic", p, json!({"kind": "c25_nfelts", "n": nf})),
                        Ok(Ok(bb)) if bb.len() > CAP => t.violation("C25:cap:decode-accepts-oversized", format!("felts_to_bytes returns {} bytes (> 1 MiB) for {} felts", bb.len(), nf), json!({"kind": "c25_nfelts", "n": nf})),
                        Ok(Err(_)) if nf == ser::MAX_SERIALIZED_FELTS => t.violation("C25:cap:decode-rejects-at-cap", "felts_to_bytes rejects the image of a 2^20-byte string".to_string(), json!({"kind": "c25_nfelts", "n": nf})),
                        _ => {}
                    }
                    t.class(&format!("felts|cap{:+}", nf as i64 - ser::MAX_SERIALIZED_FELTS as i64));
                }
            }
        }
    });
}

// =============================================================== C26 =========

fn compact_ref_ok(x: &[u8]) -> bool {
    x.len() <= CAP && x.len() % 8 == 0 && x.chunks(8).all(|c| u64::from_le_bytes(c.try_into().unwrap()) < P)
}

fn limbs_to_bytes(l: &[u64]) -> Vec<u8> {
    l.iter().flat_map(|x| x.to_le_bytes()).collect()
}

fn c26_limb(rng: &mut Rng) -> u64 {
    match rng.below(12) {
        0 => 0,
        1 => 1,
        2 => P - 2,
        3 => P - 1,
        4 => P,
        5 => P + 1,
        6 => u64::MAX,
        7 => 1 << 32,
        _ => rng.felt(),
    }
}

fn c26_hash_case(x: &[u8], t: &mut Tally) -> Option<[u8; 32]> {
    t.eval();
    let want = compact_ref_ok(x);
    let case = || if x.len() <= 512 { json!({"kind": "c26_bytes", "bytes_hex": hex::encode(x)}) } else { json!({"kind": "c26_len", "len": x.len(), "fill": x[0]}) };
    match catch(|| ser::verif_hash_bytes_compact(x)) {
        Err(p) => {
            t.violation("C26:compact:panic", format!("hash_bytes_compact panicked on {} bytes: {}", x.len(), p), case());
            None
        }
        Ok(r) => {
            if r.is_ok() != want {
                t.violation(
                    if r.is_ok() { "C26:compact:accepts-outside-domain" } else { "C26:compact:rejects-inside-domain" },
                    format!("hash_bytes_compact ok={} on {} bytes (len<=2^20: {}, 8|len: {}, limbs<p: {})", r.is_ok(), x.len(), x.len() <= CAP, x.len() % 8 == 0,
                            x.len() % 8 != 0 || x.chunks(8).all(|c| u64::from_le_bytes(c.try_into().unwrap()) < P)),
                    case(),
                );
            }
            r.ok()
        }
    }
}

fn c26_pair(a: &[u8], b: &[u8], what: &str, t: &mut Tally) {
    let ha = c26_hash_case(a, t);
    let hb = c26_hash_case(b, t);
    if a != b {
        if let (Some(x), Some(y)) = (ha, hb) {
            // encoding injectivity on the accepted domain, checked on the field sequences directly
            let ea = qp_poseidon_core::serialization::bytes_to_felts_compact(a).ok().map(|v| format!("{:?}", v));
            let eb = qp_poseidon_core::serialization::bytes_to_felts_compact(b).ok().map(|v| format!("{:?}", v));
            if x == y || (ea.is_some() && ea == eb) {
                t.violation(
                    "C26:collision",
                    format!("distinct accepted inputs ({}) have the same compact encoding / digest", what),
                    json!({"kind": "c26_pair", "a_hex": hex::encode(a), "b_hex": hex::encode(b)}),
                );
            }
            t.nontrivial(fnv(a) ^ fnv(b).rotate_left(7));
            t.class(&format!("pair|{}|both-accepted", what));
        } else {
            t.class(&format!("pair|{}|one-rejected", what));
        }
    }
}

fn rand_hash(rng: &mut Rng, canonical: bool) -> [u8; 32] {
    let mut l = [rng.felt(), rng.felt(), rng.felt(), rng.felt()];
    if rng.chance(1, 3) {
        for x in l.iter_mut() {
            if rng.chance(1, 2) {
                *x = *rng.pick(&[0u64, 1, P - 1, P - 2, 1 << 32, 0xFFFF_FFFE, 0xFFFF_FFFD, 77, 1 << 20]);
            }
        }
    }
    if !canonical {
        let i = rng.usize(4);
        l[i] = *rng.pick(&[P, P + 1, u64::MAX, P + (l[i] % 0xFFFF_FFFE)]);
    }
    refm::d4_to_bytes(&l)
}

const PERMS: [[usize; 4]; 24] = [
    [0, 1, 2, 3], [0, 1, 3, 2], [0, 2, 1, 3], [0, 2, 3, 1], [0, 3, 1, 2], [0, 3, 2, 1],
    [1, 0, 2, 3], [1, 0, 3, 2], [1, 2, 0, 3], [1, 2, 3, 0], [1, 3, 0, 2], [1, 3, 2, 0],
    [2, 0, 1, 3], [2, 0, 3, 1], [2, 1, 0, 3], [2, 1, 3, 0], [2, 3, 0, 1], [2, 3, 1, 0],
    [3, 0, 1, 2], [3, 0, 2, 1], [3, 1, 0, 2], [3, 1, 2, 0], [3, 2, 0, 1], [3, 2, 1, 0],
];

fn c26_node_case(rng: &mut Rng, t: &mut Tally) {
    t.eval();
    let n_bad = if rng.chance(1, 2) { 0 } else { 1 + rng.usize(4) };
    let mut bad_slots: Vec<usize> = (0..4).collect();
    rng.shuffle(&mut bad_slots);
    bad_slots.truncate(n_bad);
    let mut c: [[u8; 32]; 4] = [[0; 32]; 4];
    for i in 0..4 {
        c[i] = rand_hash(rng, !bad_slots.contains(&i));
    }
    match rng.below(6) {
        0 => c[1] = c[0],
        1 => {
            c[2] = c[0];
            c[3] = c[0];
        }
        2 => c.sort(),
        3 => {
            c.sort();
            c.reverse();
        }
        _ => {}
    }
    let canonical = c.iter().all(|h| refm::bytes_to_d4(h).iter().all(|l| *l < P));
    let case = || json!({"kind": "c26_node", "children_hex": c.iter().map(hex::encode).collect::<Vec<_>>()});
    t.class(&format!("node|noncanonical_children={}", c.iter().filter(|h| !refm::bytes_to_d4(h).iter().all(|l| *l < P)).count()));
    let base = match catch(|| zm::hash_node(&c)) {
        Err(p) => {
            t.violation("C26:hash_node:panic", format!("hash_node panicked: {}", p), case());
            return;
        }
        Ok(r) => r,
    };
    if base.is_ok() != canonical {
        t.violation(if base.is_ok() { "C26:hash_node:accepts-noncanonical" } else { "C26:hash_node:rejects-canonical" }, format!("hash_node ok={} with all children canonical={}", base.is_ok(), canonical), case());
    }
    match catch(|| zm::hash_node_presorted(&c)) {
        Err(p) => t.violation("C26:hash_node_presorted:panic", format!("hash_node_presorted panicked: {}", p), case()),
        Ok(r) if r.is_ok() != canonical => t.violation(if r.is_ok() { "C26:hash_node_presorted:accepts-noncanonical" } else { "C26:hash_node_presorted:rejects-canonical" }, "hash_node_presorted verdict differs from canonicality of the children".to_string(), case()),
        _ => {}
    }
    if let Ok(h) = base {
        for p in PERMS.iter() {
            let pc = [c[p[0]], c[p[1]], c[p[2]], c[p[3]]];
            if zm::hash_node(&pc).ok() != Some(h) {
                t.violation("C26:hash_node:order-dependent", format!("hash_node differs under child permutation {:?}", p), case());
                break;
            }
        }
        let mut s = c;
        s.sort();
        if zm::hash_node_presorted(&s).ok() != Some(h) {
            t.violation("C26:presorted-differs", "hash_node(c) != hash_node_presorted(sort(c))".to_string(), case());
        }
        let limbs: Vec<u64> = s.iter().flat_map(|x| refm::bytes_to_d4(x)).collect();
        if refm::d4_to_bytes(&refm::h(&limbs)) == h {
            t.count("node digest equals plonky2 Poseidon2 over the 16 sorted limbs (diagnostic)", 1);
        } else {
            t.count("node digest differs from plonky2 Poseidon2 over the 16 sorted limbs (diagnostic)", 1);
        }
        if c.iter().any(|x| refm::bytes_to_d4(x).iter().any(|l| *l >= P - 2)) {
            t.nontrivial(fnv(&c.concat()));
        }
    }
}

pub fn run_c26(ctx: &Ctx) {
    let n = ctx.tier.pick(200_000usize, 3_000_000);
    let n_nodes = ctx.tier.pick(200_000usize, 2_000_000);
    let n_big = ctx.tier.pick(1usize, 4);
    ctx.set_rule(&format!(
        "{} byte strings of every length 0..264 (every residue mod 8) with limbs from {{0,1,p-2,p-1,p,p+1,2^64-1,2^32,random}}, plus lengths 2^20-8, 2^20, 2^20+8 x{}; near-miss pairs an unsound encoding would merge (x vs x||0^8, limb v vs v+p, two limbs swapped, 128-byte node payloads differing in one bit, x vs x with a trailing zero limb removed); \
         {} child quadruples with 0..4 non-canonical children, duplicates, sorted and reverse-sorted. Oracle: hash_bytes_compact Ok <=> len<=2^20, 8|len, every limb<p, never panics; distinct accepted inputs of a pair have distinct field sequences and digests; hash_node/hash_node_presorted Err (not panic) <=> some child non-canonical; hash_node equal on all 24 orderings and equal to presorted(sort). \
         Non-trivial: accepted input with a limb >= p-2, or a near-miss pair with both members accepted.", n, n_big, n_nodes));
    ctx.assume("a digest collision between distinct accepted inputs would be an encoding collision or a Poseidon2 collision; the encoding is additionally compared as field sequences");
    let workers = ctx.n_workers();
    ctx.par(workers, |wi, t| {
        let mut rng = Rng::fork(ctx.seed, wi as u64);
        for c in 0..n.div_ceil(workers) {
            let len = (c * workers + wi) % 265;
            let mut x: Vec<u8> = if len % 8 == 0 { limbs_to_bytes(&(0..len / 8).map(|_| c26_limb(&mut rng)).collect::<Vec<_>>()) } else { rng.bytes(len) };
            if len % 8 == 0 && rng.chance(1, 2) {
                // make it canonical so that the accepting side is well populated
                let l: Vec<u64> = x.chunks(8).map(|c| u64::from_le_bytes(c.try_into().unwrap())).map(|v| if v >= P { v - P } else { v }).collect();
                x = limbs_to_bytes(&l);
            }
            let ok = compact_ref_ok(&x);
            t.class(&format!("bytes|len%8={}|{}", len % 8, if ok { "in-domain" } else { "outside" }));
            if ok && x.chunks(8).any(|c| u64::from_le_bytes(c.try_into().unwrap()) >= P - 2) {
                t.nontrivial(fnv(&x));
            }
            c26_hash_case(&x, t);
            if c < 2 {
                t.sample(json!({"len": x.len(), "in_domain": ok, "bytes_hex": hex::encode(&x[..x.len().min(32)])}));
            }
            if len % 8 == 0 {
                // near-miss pairs
                let mut y = x.clone();
                y.extend_from_slice(&[0u8; 8]);
                c26_pair(&x, &y, "x vs x||0^8", t);
                if len >= 8 {
                    let k = rng.usize(len / 8);
                    let v = u64::from_le_bytes(x[k * 8..k * 8 + 8].try_into().unwrap());
                    if let Some(alias) = v.checked_add(P) {
                        let mut z = x.clone();
                        z[k * 8..k * 8 + 8].copy_from_slice(&alias.to_le_bytes());
                        c26_pair(&x, &z, "limb v vs v+p", t);
                    }
                    if len >= 16 {
                        let j = rng.usize(len / 8);
                        let mut z = x.clone();
                        let a: [u8; 8] = x[k * 8..k * 8 + 8].try_into().unwrap();
                        let b: [u8; 8] = x[j * 8..j * 8 + 8].try_into().unwrap();
                        z[k * 8..k * 8 + 8].copy_from_slice(&b);
                        z[j * 8..j * 8 + 8].copy_from_slice(&a);
                        c26_pair(&x, &z, "two limbs swapped", t);
                    }
                    let mut z = x.clone();
                    let bit = rng.usize(len * 8);
                    z[bit / 8] ^= 1 << (bit % 8);
                    c26_pair(&x, &z, "one bit flipped", t);
                }
            }
        }
        // 128-byte node payloads differing in one bit
        for _ in 0..(n / 8).div_ceil(workers) {
            let x: Vec<u8> = (0..4).flat_map(|_| rand_hash(&mut rng, true)).collect();
            let mut z = x.clone();
            let bit = rng.usize(1024);
            z[bit / 8] ^= 1 << (bit % 8);
            c26_pair(&x, &z, "node payload one bit", t);
        }
        for _ in 0..n_nodes.div_ceil(workers) {
            c26_node_case(&mut rng, t);
        }
        for r in 0..n_big {
            for (k, len) in [CAP - 8, CAP, CAP + 8].iter().enumerate() {
                if (r * 3 + k) % workers != wi {
                    continue;
                }
                let x = vec![(0x40 + r) as u8; *len];
                c26_hash_case(&x, t);
                t.nontrivial(fnv_u64s(&[*len as u64, r as u64]));
                t.class(&format!("bytes|cap|len=2^20{:+}", *len as i64 - CAP as i64));
            }
        }
    });
}

// =============================================================== C27 =========

#[derive(Clone, Debug)]
pub struct MProof {
    pub leaf: [u8; 32],
    pub siblings: Vec<[[u8; 32]; 3]>,
    pub positions: Vec<u8>,
    pub root: [u8; 32],
}

impl MProof {
    fn to_native(&self) -> ZkMerkleProof {
        ZkMerkleProof::new(0, self.siblings.clone(), self.positions.clone(), self.leaf, self.root)
    }
    fn to_json(&self) -> Value {
        json!({"leaf": hex::encode(self.leaf), "root": hex::encode(self.root), "positions": self.positions,
               "siblings": self.siblings.iter().map(|l| l.iter().map(hex::encode).collect::<Vec<_>>()).collect::<Vec<_>>()})
    }
    fn from_json(v: &Value) -> Option<MProof> {
        fn h32(v: &Value) -> Option<[u8; 32]> {
            hex::decode(v.as_str()?).ok()?.try_into().ok()
        }
        Some(MProof {
            leaf: h32(&v["leaf"])?,
            root: h32(&v["root"])?,
            positions: v["positions"].as_array()?.iter().map(|x| x.as_u64().unwrap_or(0) as u8).collect(),
            siblings: v["siblings"].as_array()?.iter().map(|l| { let a = l.as_array().unwrap(); [h32(&a[0]).unwrap(), h32(&a[1]).unwrap(), h32(&a[2]).unwrap()] }).collect(),
        })
    }
}

fn canonical32(h: &[u8; 32]) -> bool {
    refm::bytes_to_d4(h).iter().all(|l| *l < P)
}

/// Reference predicate of C27 (written from the statement).
pub fn ref_verify(p: &MProof) -> bool {
    if p.siblings.len() > 16 || p.positions.len() != p.siblings.len() {
        return false;
    }
    if !canonical32(&p.leaf) || !p.siblings.iter().flatten().all(canonical32) {
        return false;
    }
    if p.positions.iter().any(|x| *x > 3) {
        return false;
    }
    ref_fold(&p.leaf, &p.siblings, &p.positions) == p.root
}

fn ref_fold(leaf: &[u8; 32], sibs: &[[[u8; 32]; 3]], pos: &[u8]) -> [u8; 32] {
    let mut cur = refm::bytes_to_d4(leaf);
    for (s, p) in sibs.iter().zip(pos.iter()) {
        let s4 = [refm::bytes_to_d4(&s[0]), refm::bytes_to_d4(&s[1]), refm::bytes_to_d4(&s[2])];
        cur = refm::node_hash(&refm::insert_at(&cur, &s4, *p as usize));
    }
    refm::d4_to_bytes(&cur)
}

fn gen_valid_proof(rng: &mut Rng, depth: usize) -> MProof {
    let leaf = rand_hash(rng, true);
    let style = rng.below(5);
    let mut siblings = vec![];
    let mut positions = vec![];
    let mut cur = leaf;
    for _ in 0..depth {
        let mut s = [rand_hash(rng, true), rand_hash(rng, true), rand_hash(rng, true)];
        match style {
            0 => {
                // adversarially close hashes
                s[1] = s[0];
                if rng.bool() {
                    s[2] = cur;
                }
            }
            1 => {
                s[0] = cur;
                s[0][31] ^= 1;
                if !canonical32(&s[0]) {
                    s[0] = cur;
                }
                s[1] = cur;
            }
            _ => {}
        }
        let pos = if style == 4 {
            rng.below(4) as u8 // arbitrary position, siblings unsorted: still a valid path per the statement
        } else {
            s.sort();
            // a valid sorted rank of cur among the four
            let lo = s.iter().filter(|x| **x < cur).count();
            let hi = s.iter().filter(|x| **x <= cur).count();
            (lo + rng.usize(hi - lo + 1)) as u8
        };
        siblings.push(s);
        positions.push(pos);
        cur = ref_fold(&cur, &[s], &[pos]);
    }
    MProof { leaf, siblings, positions, root: cur }
}

fn corrupt_proof(rng: &mut Rng, p: &mut MProof) -> &'static str {
    let d = p.siblings.len();
    let choice = rng.below(12);
    match choice {
        11 if d == 0 => {
            // depth 0: the fold is the identity, so a non-canonical leaf whose root follows it is
            // rejected by the canonicality clause alone
            let mut l4 = refm::bytes_to_d4(&p.leaf);
            let i = rng.usize(4);
            l4[i] = match l4[i].checked_add(P) { Some(a) if rng.bool() => a, _ => *rng.pick(&[P, P + 1, u64::MAX]) };
            p.leaf = refm::d4_to_bytes(&l4);
            p.root = p.leaf;
            "depth0-noncanonical-leaf=root"
        }
        0 if d > 0 => {
            let l = rng.usize(d);
            p.siblings[l][rng.usize(3)][rng.usize(32)] ^= 1 << rng.below(8);
            "sibling-byte"
        }
        1 if d > 0 => {
            let l = rng.usize(d);
            p.positions[l] = (p.positions[l] + 1 + rng.below(3) as u8) % 4;
            "position-in-range"
        }
        2 if d > 0 => {
            let l = rng.usize(d);
            p.positions[l] = *rng.pick(&[4u8, 5, 7, 8, 128, 255, 252]);
            "position>3"
        }
        3 => {
            p.root[rng.usize(32)] ^= 1 << rng.below(8);
            "root-byte"
        }
        4 => {
            p.leaf[rng.usize(32)] ^= 1 << rng.below(8);
            "leaf-byte"
        }
        5 if d > 0 => {
            p.positions.pop();
            "dropped-position"
        }
        6 => {
            p.positions.push(rng.below(4) as u8);
            "extra-position"
        }
        7 => {
            // +p alias of a limb where it fits in 64 bits (leaf or a sibling)
            let target: &mut [u8; 32] = if d == 0 || rng.chance(1, 3) { &mut p.leaf } else { let l = rng.usize(d); &mut p.siblings[l][rng.usize(3)] };
            let mut l4 = refm::bytes_to_d4(target);
            for k in 0..4 {
                let i = (k + rng.usize(4)) % 4;
                if let Some(a) = l4[i].checked_add(P) {
                    l4[i] = a;
                    *target = refm::d4_to_bytes(&l4);
                    return "limb+p-alias";
                }
            }
            l4[0] = u64::MAX;
            *target = refm::d4_to_bytes(&l4);
            "limb>=p"
        }
        8 => {
            let target: &mut [u8; 32] = if d == 0 || rng.chance(1, 3) { &mut p.leaf } else { let l = rng.usize(d); &mut p.siblings[l][rng.usize(3)] };
            let mut l4 = refm::bytes_to_d4(target);
            l4[rng.usize(4)] = *rng.pick(&[P, P + 1, u64::MAX]);
            *target = refm::d4_to_bytes(&l4);
            "limb>=p"
        }
        9 if d >= 2 => {
            let a = rng.usize(d);
            let b = (a + 1) % d;
            p.siblings.swap(a, b);
            "levels-swapped"
        }
        _ => {
            // non-canonical root only (root canonicality is implied by equality with a hash output)
            let mut l4 = refm::bytes_to_d4(&p.root);
            if let Some(a) = l4[0].checked_add(P) {
                l4[0] = a;
                p.root = refm::d4_to_bytes(&l4);
                "root+p-alias"
            } else {
                p.root[0] ^= 1;
                "root-byte"
            }
        }
    }
}

fn c27_native_case(p: &MProof, label: &str, t: &mut Tally) {
    t.eval();
    let want = ref_verify(p);
    let n = p.to_native();
    let case = || json!({"kind": "c27_native", "proof": p.to_json()});
    for (name, got) in [("verify", catch(|| n.verify())), ("verify_with_positions", catch(|| n.verify_with_positions()))] {
        match got {
            Err(e) => t.violation(format!("C27:{}:panic", name), format!("{} panicked ({}): {}", name, label, e), case()),
            Ok(g) if g != want => t.violation(
                format!("C27:{}:{}", name, if g { "accepts-invalid" } else { "rejects-valid" }),
                format!("native {}() = {} but the reference predicate says {} (case {}, depth {})", name, g, want, label, p.siblings.len()),
                case(),
            ),
            _ => {}
        }
    }
    t.class(&format!("native|{}|{}", label, if want { "valid" } else { "invalid" }));
}

fn c27_from_unsorted_case(rng: &mut Rng, t: &mut Tally, c: usize) {
    t.eval();
    // insert_at_position: total over every position byte, exact for 0..3
    {
        let cur = rand_hash(rng, true);
        let sib = [rand_hash(rng, true), rand_hash(rng, true), rand_hash(rng, true)];
        let pos = if rng.chance(1, 2) { rng.below(4) as u8 } else { rng.below(256) as u8 };
        let want: Option<[[u8; 32]; 4]> = match pos {
            0 => Some([cur, sib[0], sib[1], sib[2]]),
            1 => Some([sib[0], cur, sib[1], sib[2]]),
            2 => Some([sib[0], sib[1], cur, sib[2]]),
            3 => Some([sib[0], sib[1], sib[2], cur]),
            _ => None,
        };
        match catch(|| zm::insert_at_position(cur, &sib, pos).ok()) {
            Err(p) => t.violation("C27:insert_at_position:panic", format!("insert_at_position panicked at position {}: {}", pos, p), json!({"kind": "c27_insert", "position": pos})),
            Ok(got) if got != want => t.violation("C27:insert_at_position:wrong", format!("insert_at_position at position {} returned {}", pos, if got.is_some() { "a wrong tuple / Ok for an out-of-range position" } else { "Err for an in-range position" }), json!({"kind": "c27_insert", "position": pos})),
            _ => {}
        }
    }
    let depth = match c % 20 {
        18 => 17,
        19 => 18 + rng.usize(3),
        d => d % 17,
    };
    let leaf = rand_hash(rng, true);
    let mut unsorted: Vec<[[u8; 32]; 3]> = (0..depth).map(|_| [rand_hash(rng, true), rand_hash(rng, true), rand_hash(rng, true)]).collect();
    let tie = rng.chance(1, 4) && depth > 0;
    if tie {
        let l = rng.usize(depth);
        unsorted[l][1] = unsorted[l][0];
    }
    let noncanon = rng.chance(1, 6);
    let mut leaf2 = leaf;
    if noncanon {
        if depth == 0 || rng.bool() {
            leaf2 = rand_hash(rng, false);
        } else {
            let l = rng.usize(depth);
            unsorted[l][rng.usize(3)] = rand_hash(rng, false);
        }
    }
    // reference root over byte-sorted tuples
    let mut cur = leaf2;
    let mut sorted_levels: Vec<[[u8; 32]; 4]> = vec![];
    // ties with the *running hash*: 1..3 siblings of one level equal the hash being inserted there
    // (twin subtrees, an empty-slot leaf beside empty-slot siblings)
    let tie_cur: Option<(usize, usize)> = if depth > 0 && !noncanon && rng.chance(1, 4) { Some((rng.usize(depth), 1 + rng.usize(3))) } else { None };
    if !noncanon {
        for l in 0..depth {
            if let Some((tl, k)) = tie_cur {
                if tl == l {
                    for j in 0..k {
                        unsorted[l][j] = cur;
                    }
                }
            }
            let mut four = [cur, unsorted[l][0], unsorted[l][1], unsorted[l][2]];
            four.sort();
            sorted_levels.push(four);
            let limbs: Vec<u64> = four.iter().flat_map(refm::bytes_to_d4).collect();
            cur = refm::d4_to_bytes(&refm::h(&limbs));
        }
    }
    let true_root = cur;
    let wrong_root = rng.chance(1, 5);
    let root = if wrong_root { rand_hash(rng, true) } else { true_root };
    let case = || json!({"kind": "c27_unsorted", "leaf": hex::encode(leaf2), "root": hex::encode(root),
                          "siblings": unsorted.iter().map(|l| l.iter().map(hex::encode).collect::<Vec<_>>()).collect::<Vec<_>>()});
    let want_ok = depth <= 16 && !noncanon;
    t.class(&format!("from_unsorted|depth{}|{}|{}", if depth <= 16 { "<=16" } else { ">16" }, if noncanon { "non-canonical" } else { "canonical" }, if wrong_root { "wrong-root" } else { "true-root" }));
    if tie_cur.is_some() {
        t.class("from_unsorted|sibling-equals-running-hash");
    }
    let got = match catch(|| ZkMerkleProof::from_unsorted(7, unsorted.clone(), leaf2, root)) {
        Err(p) => {
            t.violation("C27:from_unsorted:panic", format!("from_unsorted panicked: {}", p), case());
            return;
        }
        Ok(g) => g,
    };
    match (got, want_ok) {
        (Ok(_), false) => t.violation("C27:from_unsorted:accepts", format!("from_unsorted accepts depth {} / non-canonical={} input", depth, noncanon), case()),
        (Err(e), true) => t.violation("C27:from_unsorted:rejects", format!("from_unsorted rejects a canonical path of depth {}: {}", depth, e), case()),
        (Err(_), false) => {}
        (Ok(pr), true) => {
            if pr.siblings.len() != depth || pr.positions.len() != depth || pr.leaf_hash != leaf2 || pr.root != root {
                t.violation("C27:from_unsorted:shape", "from_unsorted output has the wrong shape / leaf / root".to_string(), case());
                return;
            }
            let mut cur = leaf2;
            for l in 0..depth {
                let pos = pr.positions[l];
                let ok = pos <= 3 && {
                    let s = &pr.siblings[l];
                    let four = match pos {
                        0 => [cur, s[0], s[1], s[2]],
                        1 => [s[0], cur, s[1], s[2]],
                        2 => [s[0], s[1], cur, s[2]],
                        _ => [s[0], s[1], s[2], cur],
                    };
                    four == sorted_levels[l]
                };
                if !ok {
                    t.violation("C27:from_unsorted:rank", format!("from_unsorted level {}: inserting the running hash at position {} does not give the byte-sorted 4-tuple", l, pos), case());
                    return;
                }
                let limbs: Vec<u64> = sorted_levels[l].iter().flat_map(refm::bytes_to_d4).collect();
                cur = refm::d4_to_bytes(&refm::h(&limbs));
            }
            let v = pr.verify();
            if v != (root == true_root) {
                t.violation("C27:from_unsorted:verify", format!("proof built by from_unsorted verifies={} although supplied root == reference root is {}", v, root == true_root), case());
            }
            if depth >= 2 || tie {
                t.nontrivial(fnv(&[leaf2.to_vec(), root.to_vec(), unsorted.concat().concat()].concat()));
            }
        }
    }
    // the circuit crate's twin builder (the one feeding the leaf witness) on the same input
    use wormhole_circuit::zk_merkle_proof::{ZkLeafData, ZkMerkleProofData};
    let leaf_data = ZkLeafData::new([0x21u8; 32], 7, 0, 1000, 900, 99, 10);
    t.eval();
    match catch(|| ZkMerkleProofData::from_unsorted(root, unsorted.clone(), leaf2, leaf_data, true)) {
        Err(p) => t.violation("C27:circuit-from_unsorted:panic", format!("ZkMerkleProofData::from_unsorted panicked: {}", p), case()),
        Ok(Ok(_)) if !want_ok => t.violation("C27:circuit-from_unsorted:accepts", format!("ZkMerkleProofData::from_unsorted accepts depth {} / non-canonical={} input", depth, noncanon), case()),
        Ok(Err(e)) if want_ok => t.violation("C27:circuit-from_unsorted:rejects", format!("ZkMerkleProofData::from_unsorted rejects a canonical path of depth {}: {}", depth, e), case()),
        Ok(Err(_)) => {}
        Ok(Ok(d)) => {
            if d.depth != depth || d.positions.len() != depth || d.siblings.len() != depth || d.root_hash.map(|f| f.to_canonical_u64()) != refm::bytes_to_d4(&root) {
                t.violation("C27:circuit-from_unsorted:shape", "ZkMerkleProofData::from_unsorted output has the wrong depth / root".to_string(), case());
                return;
            }
            for l in 0..depth {
                let pos = d.positions[l] as usize;
                let sib: Vec<[u64; 4]> = d.siblings[l].iter().map(|x| x.map(|f| f.to_canonical_u64())).collect();
                let want4: Vec<[u64; 4]> = sorted_levels[l].iter().map(refm::bytes_to_d4).collect();
                let ok = pos <= 3 && {
                    let mut four = sib.clone();
                    four.insert(pos, want4[pos]);
                    // the running hash of level l is the sorted tuple's entry at `pos` only if it is the hash being inserted
                    four == want4 && {
                        let running = if l == 0 { refm::bytes_to_d4(&leaf2) } else { refm::h(&want4_prev(&sorted_levels, l)) };
                        want4[pos] == running
                    }
                };
                if !ok {
                    t.violation("C27:circuit-from_unsorted:rank", format!("ZkMerkleProofData::from_unsorted level {}: position {} / stored siblings do not reproduce the byte-sorted 4-tuple around the running hash", l, pos), case());
                    return;
                }
            }
        }
    }
}

fn want4_prev(sorted_levels: &[[[u8; 32]; 4]], l: usize) -> Vec<u64> {
    sorted_levels[l - 1].iter().flat_map(refm::bytes_to_d4).collect()
}

/// Circuit clause: E1 on the real leaf circuit says Sat <=> native verify for the tree path.
fn c27_circuit_case(lc: &LeafCircuit, rng: &mut Rng, t: &mut Tally, c: usize) {
    let depth = c % 17;
    let mut w = LeafW::honest(rng, &HonestParams { depth: Some(depth), dummy: false, ..Default::default() });
    let label: &str = match rng.below(7) {
        0 | 1 => "valid",
        2 if depth > 0 => {
            let l = rng.usize(depth);
            let (s, e) = (rng.usize(3), rng.usize(4));
            w.siblings[l][s][e] = refm::fadd(w.siblings[l][s][e], 1 + rng.below(7));
            "sibling-limb"
        }
        3 if depth > 0 => {
            let l = rng.usize(depth);
            w.positions[l] = (w.positions[l] + 1 + rng.below(3)) % 4;
            "position-in-range"
        }
        4 if depth > 0 => {
            let l = rng.usize(depth);
            w.positions[l] = *rng.pick(&[4u64, 5, 7, 255, 128]);
            "position>3"
        }
        5 => {
            // root changed; header re-bound to it so that only the Merkle clause can fail
            let e = rng.usize(4);
            w.root_hash[e] = refm::fadd(w.root_hash[e], 1);
            w.header.tree_root = w.root_hash;
            w.block_hash = refm::block_hash(&w.header);
            "root-limb"
        }
        6 => {
            // leaf changed after the tree was built (input amount + 1)
            w.input = (w.input + 1) & 0xFFFF_FFFF;
            // keep the fee inequality true
            if (w.out1 + w.out2) * 10000 > w.input * (10000 - w.fee) {
                w.out1 = 0;
                w.out2 = 0;
            }
            "leaf-preimage"
        }
        _ => "valid",
    };
    let native = MProof {
        leaf: refm::d4_to_bytes(&w.ref_leaf_hash()),
        siblings: w.siblings[..depth].iter().map(|s| [refm::d4_to_bytes(&s[0]), refm::d4_to_bytes(&s[1]), refm::d4_to_bytes(&s[2])]).collect(),
        positions: w.positions[..depth].iter().map(|p| *p as u8).collect(),
        root: refm::d4_to_bytes(&w.root_hash),
    };
    let nv = match catch(|| native.to_native().verify()) {
        Ok(v) => v,
        Err(p) => {
            t.violation("C27:verify:panic", p, json!({"kind": "c27_native", "proof": native.to_json()}));
            return;
        }
    };
    let out = lc.circuit.eval(&w.fill(&lc.targets), &[]);
    t.eval();
    t.class(&format!("circuit|{}|native={}|circuit={}", label, nv, out.is_sat()));
    if out.is_sat() != nv {
        let confirmed = lc.circuit.confirm(&w.fill(&lc.targets), &[]).is_ok();
        if confirmed == out.is_sat() {
            t.violation(
                if out.is_sat() { "C27:circuit-accepts-native-rejects" } else { "C27:circuit-rejects-native-accepts" },
                format!("leaf circuit satisfiable={} but native verify()={} for the same tree path (case {}, depth {})", out.is_sat(), nv, label, depth),
                json!({"kind": "c27_circuit", "witness": w.to_json()}),
            );
        } else {
            t.infra("C27 evaluator / real prover disagree".to_string());
        }
    }
    if depth >= 2 || label != "valid" {
        t.nontrivial(fnv_u64s(&w.statement_pis()) ^ fnv(label.as_bytes()));
    }
}

pub fn run_c27(ctx: &Ctx) {
    let n_native = ctx.tier.pick(160_000usize, 4_000_000);
    let n_unsorted = ctx.tier.pick(40_000usize, 800_000);
    let n_circuit = ctx.tier.pick(6_800usize, 200_000);
    ctx.set_rule(&format!(
        "{} native proofs: reference-built valid paths of every depth 0..16 by quota (random canonical hashes, adversarially close hashes — equal siblings, siblings equal to the running hash or differing in the last byte — sorted siblings with a valid rank, and unsorted siblings with arbitrary positions), depth 17/18, and one corruption of a valid proof \
         (sibling byte, position in range, position 4..255, root byte, leaf byte, dropped/extra position, limb +p alias, limb >= p, levels swapped, root +p alias); {} from_unsorted inputs (depth 0..20, ties, non-canonical leaf/sibling, wrong root); {} real leaf statements on the leaf circuit (valid path or a corruption expressible in felts). \
         Oracle: verify() == verify_with_positions() == reference predicate (depth<=16, |positions|=depth, canonical hashes, positions<=3, reference fold with plonky2's Poseidon2 reaches the root), no panic; from_unsorted Ok <=> depth<=16 and canonical, output positions give the byte-sorted 4-tuple at every level and it verifies iff the supplied root is the reference root; circuit Sat <=> native verify. \
         Non-trivial: depth >= 2, a tie, or a corruption.", n_native, n_unsorted, n_circuit));
    ctx.assume("non-canonical bytes have no felt representation: for them only the native `false` is asserted");
    let workers = ctx.n_workers();
    ctx.par(workers, |wi, t| {
        let mut rng = Rng::fork(ctx.seed, wi as u64);
        for c in 0..n_native.div_ceil(workers) {
            let depth = match (c * workers + wi) % 40 {
                38 => 17,
                39 => 18,
                d => d % 17,
            };
            let p = gen_valid_proof(&mut rng, depth);
            let fp = fnv(&[p.leaf.to_vec(), p.root.to_vec()].concat());
            if rng.chance(1, 3) {
                c27_native_case(&p, if depth <= 16 { "valid" } else { "too-deep" }, t);
                if depth >= 2 {
                    t.nontrivial(fp);
                }
            } else {
                let mut q = p.clone();
                let label = corrupt_proof(&mut rng, &mut q);
                c27_native_case(&q, label, t);
                t.nontrivial(fp ^ fnv(label.as_bytes()));
            }
            if c < 2 {
                t.sample(json!({"depth": depth, "positions": p.positions, "leaf": hex::encode(p.leaf), "root": hex::encode(p.root)}));
            }
        }
        for c in 0..n_unsorted.div_ceil(workers) {
            c27_from_unsorted_case(&mut rng, t, c * workers + wi);
        }
        let lc = match LeafCircuit::build() {
            Ok(l) => l,
            Err(e) => {
                t.infra(e);
                return;
            }
        };
        for c in 0..n_circuit.div_ceil(workers) {
            c27_circuit_case(&lc, &mut rng, t, c * workers + wi);
        }
    });
}

// ------------------------------------------------------------------- replay

pub fn replay(case: &Value) -> Result<bool, String> {
    let mut t = Tally::new();
    let hexv = |k: &str| -> Result<Vec<u8>, String> { hex::decode(case[k].as_str().ok_or(k.to_string())?).map_err(|e| e.to_string()) };
    match case["kind"].as_str().unwrap_or("") {
        "c25_bytes" => {
            let b = hexv("bytes_hex")?;
            c25_bytes_case(&b, &mut t);
            c25_injective_case(&b, &mut t);
        }
        "c25_len" => {
            let b = vec![0x5au8; case["len"].as_u64().ok_or("len")? as usize];
            c25_bytes_case(&b, &mut t);
        }
        "c25_pair" => {
            let a = hexv("a_hex")?;
            let b = hexv("b_hex")?;
            return Ok(a != b && ser::bytes_to_felts(&a).ok() == ser::bytes_to_felts(&b).ok());
        }
        "c25_felts" => {
            let v: Vec<u64> = case["felts"].as_array().ok_or("felts")?.iter().map(|x| x.as_u64().unwrap_or(0)).collect();
            c25_decode_case(&v, &mut t);
        }
        "c26_bytes" => {
            c26_hash_case(&hexv("bytes_hex")?, &mut t);
        }
        "c26_len" => {
            let x = vec![case["fill"].as_u64().unwrap_or(0) as u8; case["len"].as_u64().ok_or("len")? as usize];
            c26_hash_case(&x, &mut t);
        }
        "c26_pair" => {
            c26_pair(&hexv("a_hex")?, &hexv("b_hex")?, "replay", &mut t);
        }
        "c27_native" => {
            let p = MProof::from_json(&case["proof"]).ok_or("proof")?;
            c27_native_case(&p, "replay", &mut t);
        }
        "c27_circuit" => {
            let lc = LeafCircuit::build()?;
            let w = LeafW::from_json(&case["witness"]).ok_or("witness")?;
            let d = w.active_depth();
            let native = MProof {
                leaf: refm::d4_to_bytes(&w.ref_leaf_hash()),
                siblings: w.siblings[..d].iter().map(|s| [refm::d4_to_bytes(&s[0]), refm::d4_to_bytes(&s[1]), refm::d4_to_bytes(&s[2])]).collect(),
                positions: w.positions[..d].iter().map(|p| *p as u8).collect(),
                root: refm::d4_to_bytes(&w.root_hash),
            };
            let nv = native.to_native().verify();
            return Ok(lc.circuit.confirm(&w.fill(&lc.targets), &[]).is_ok() != nv);
        }
        k => return Err(format!("replay of kind {} is not supported (regenerate with the recorded seed)", k)),
    }
    Ok(!t.violations.is_empty())
}

