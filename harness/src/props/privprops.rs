//! C06–C09: private-batch wrapper semantics on the wrapper-only circuit (E1).

use serde_json::json;
use std::collections::BTreeMap;

use crate::engine::e1::Outcome;
use crate::leaf::LeafCircuit;
use crate::pbatch::{self, batch_json, LeafStmt, PrivCircuit, Reject};
use crate::refm::{self, D4};
use crate::util::rng::Rng;
use crate::util::{fnv_u64s, Ctx, Tally};
use zk_circuits_common::circuit::wormhole_private_batch_circuit_config;

#[derive(Clone, Copy, PartialEq, Eq, Debug)]
pub enum Which {
    C06,
    C07,
    C08,
    C09,
}

impl Which {
    pub fn id(self) -> &'static str {
        match self {
            Which::C06 => "C06",
            Which::C07 => "C07",
            Which::C08 => "C08",
            Which::C09 => "C09",
        }
    }
}

fn case_fp(leaves: &[LeafStmt], pre: &[D4]) -> u64 {
    let mut v = vec![];
    for l in leaves {
        v.extend_from_slice(&l.pis());
    }
    for p in pre {
        v.extend_from_slice(p);
    }
    fnv_u64s(&v)
}

pub fn build_circuits(sizes: &[usize], zk: bool) -> Result<BTreeMap<usize, PrivCircuit>, String> {
    let lc = LeafCircuit::build()?;
    let common = &lc.circuit.data.common;
    let results: Vec<Result<PrivCircuit, String>> = std::thread::scope(|s| {
        let hs: Vec<_> = sizes
            .iter()
            .map(|&n| {
                s.spawn(move || {
                    let mut cfg = wormhole_private_batch_circuit_config();
                    if !zk {
                        cfg.zero_knowledge = false;
                    }
                    let t0 = std::time::Instant::now();
                    let pc = PrivCircuit::build(n, common, cfg)?;
                    if std::env::var("QPV_TIMING").is_ok() {
                        let mut rng = Rng::new(3);
                        let (l, p) = pbatch::gen_accepted(&mut rng, n);
                        let inp = pc.fill(&l, &p);
                        let t1 = std::time::Instant::now();
                        for _ in 0..5 {
                            pc.circuit.eval(&inp, &[]);
                        }
                        eprintln!("timing: priv N={} rows={} gens={} build={:?} eval={:?}", n, pc.circuit.degree, pc.circuit.gen_ids.len(), t1 - t0, t1.elapsed() / 5);
                    }
                    Ok(pc)
                })
            })
            .collect();
        hs.into_iter().map(|h| h.join().unwrap_or_else(|_| Err("circuit build thread panicked".into()))).collect()
    });
    let mut m = BTreeMap::new();
    for r in results {
        let pc = r?;
        m.insert(pc.n, pc);
    }
    Ok(m)
}

/// Decide one batch for property `which`. Returns the circuit outcome.
pub fn decide(pc: &PrivCircuit, leaves: &[LeafStmt], pre: &[D4], which: Which, rng: &mut Rng, t: &mut Tally) -> Outcome {
    let n = pc.n;
    let inputs = pc.fill(leaves, pre);
    let out = pc.circuit.eval(&inputs, &[]);
    t.eval();
    let r = pbatch::reference(leaves, pre);
    let n_real = leaves.iter().filter(|l| !l.is_dummy()).count();
    let n_dummy = n - n_real;
    let has_dup_account = {
        let mut accts: Vec<D4> = vec![];
        for l in leaves.iter().filter(|l| !l.is_dummy()) {
            accts.push(l.exit1);
            accts.push(l.exit2);
        }
        let mut s = accts.clone();
        s.sort();
        s.dedup();
        s.len() < accts.len()
    };
    t.class(&format!(
        "N={}|real={}|{}",
        n,
        n_real.min(3),
        match &r.verdict {
            Ok(()) => "accept".to_string(),
            Err(e) => format!("reject:{:?}", e),
        }
    ));
    let violation_case = |kind: &str| json!({"kind": kind, "n": n, "batch": batch_json(leaves, pre)});
    match which {
        Which::C07 => {
            // iff: Sat <=> reference predicate
            if out.is_sat() != r.verdict.is_ok() {
                if out.is_sat() {
                    // circuit accepts what the specification rejects: confirm with the real prover
                    match pc.circuit.confirm_ok(&inputs, &[]) {
                        Ok(_) => t.violation(
                            format!("C07:accepts:{:?}", r.failing.first().unwrap()),
                            format!("private-batch wrapper satisfiable (real proof verifies) for a batch failing {:?}", r.failing),
                            violation_case("priv_accept"),
                        ),
                        Err(e) => t.infra(format!("C07 evaluator Sat but real prover disagreed: {}", e)),
                    }
                } else {
                    // circuit rejects what the specification accepts; the honest witness is the only
                    // witness here, so also try the real prover to rule out an evaluator artefact
                    match pc.circuit.confirm_ok(&inputs, &[]) {
                        Ok(_) => t.infra("C07 evaluator Unsat but real prover produced a verifying proof".to_string()),
                        Err(_) => t.violation(
                            "C07:rejects-compatible".to_string(),
                            format!("private-batch wrapper unsatisfiable on the honest witness of a compatible batch: {}", out.short()),
                            violation_case("priv_reject"),
                        ),
                    }
                }
            }
            // metamorphic: slot permutation and dummy-content rewriting never change the verdict
            if n >= 2 {
                let mut idx: Vec<usize> = (0..n).collect();
                rng.shuffle(&mut idx);
                let l2: Vec<LeafStmt> = idx.iter().map(|i| leaves[*i].clone()).collect();
                let p2: Vec<D4> = idx.iter().map(|i| pre[*i]).collect();
                let o2 = pc.circuit.eval(&pc.fill(&l2, &p2), &[]);
                t.eval();
                if o2.is_sat() != out.is_sat() {
                    t.violation(
                        "C07:order-dependent".to_string(),
                        format!("verdict changes under slot permutation {:?}: {} vs {}", idx, out.short(), o2.short()),
                        json!({"kind": "priv_perm", "n": n, "batch": batch_json(leaves, pre), "perm": idx}),
                    );
                }
            }
            if n_dummy > 0 {
                let pools = pbatch::make_pools(rng);
                let l2: Vec<LeafStmt> = leaves
                    .iter()
                    .map(|l| if l.is_dummy() { pbatch::gen_dummy(rng, &pools, l.asset) } else { l.clone() })
                    .collect();
                let o2 = pc.circuit.eval(&pc.fill(&l2, pre), &[]);
                t.eval();
                if o2.is_sat() != out.is_sat() {
                    t.violation(
                        "C07:dummy-content-dependent".to_string(),
                        format!("verdict changes when dummy slot contents (asset kept) are rewritten: {} vs {}", out.short(), o2.short()),
                        json!({"kind": "priv_dummy_rewrite", "n": n, "batch": batch_json(leaves, pre), "rewritten": batch_json(&l2, pre)}),
                    );
                }
            }
            // non-trivial: exactly one conjunct away from the other verdict
            if r.failing.len() == 1 || (r.failing.is_empty() && (has_dup_account || n_dummy > 0)) {
                t.nontrivial(case_fp(leaves, pre));
            }
        }
        Which::C06 => {
            if let (Some(pis), Ok(())) = (out.pis(), &r.verdict) {
                if pis != r.output.as_slice() {
                    let pos = pis.iter().zip(r.output.iter()).position(|(a, b)| a != b);
                    match pc.circuit.confirm_ok(&inputs, &[]) {
                        Ok(_) => t.violation(
                            format!("C06:output-mismatch:{}", region_of(pos.unwrap_or(0), n)),
                            format!("private-batch output differs from the specified aggregate at index {:?} (got {:?}, expected {:?})",
                                    pos, pos.map(|p| pis[p]), pos.map(|p| r.output[p])),
                            violation_case("priv_output"),
                        ),
                        Err(e) => t.infra(format!("C06 mismatch but real prover disagreed: {}", e)),
                    }
                }
                if pis.len() != 21 * n + 8 {
                    t.violation("C06:length".to_string(), format!("output length {} != 21N+8", pis.len()), violation_case("priv_output"));
                }
            }
            if r.verdict.is_ok() && n_real >= 1 && (has_dup_account || n_dummy > 0 || n >= 3) {
                t.nontrivial(case_fp(leaves, pre));
            }
        }
        Which::C08 => {
            if let Some(pis) = out.pis() {
                // conservation computed from the child statements only
                let total_in: u128 = leaves.iter().filter(|l| !l.is_dummy()).map(|l| l.out1 as u128 + l.out2 as u128).sum();
                let mut total_out: u128 = 0;
                let mut ok = true;
                let mut why = String::new();
                for s in 0..2 * n {
                    let base = 8 + 5 * s;
                    let amt = pis[base] as u128;
                    let acct: D4 = [pis[base + 1], pis[base + 2], pis[base + 3], pis[base + 4]];
                    total_out += amt;
                    if amt != 0 {
                        let expect: u128 = leaves
                            .iter()
                            .filter(|l| !l.is_dummy())
                            .map(|l| (if l.exit1 == acct { l.out1 as u128 } else { 0 }) + (if l.exit2 == acct { l.out2 as u128 } else { 0 }))
                            .sum();
                        if amt != expect {
                            ok = false;
                            why = format!("slot {} pays {} to {:?}, real slots sent {}", s, amt, acct, expect);
                        }
                    }
                }
                if total_in != total_out {
                    ok = false;
                    why = format!("sum of output slots {} != sum over real leaves {}", total_out, total_in);
                }
                if !ok {
                    match pc.circuit.confirm_ok(&inputs, &[]) {
                        Ok(_) => t.violation("C08:conservation".to_string(), why, violation_case("priv_conservation")),
                        Err(e) => t.infra(format!("C08 mismatch but real prover disagreed: {}", e)),
                    }
                }
                let dummy_with_amounts = leaves.iter().any(|l| l.is_dummy() && (l.out1 != 0 || l.out2 != 0));
                let thrice = {
                    let mut c: BTreeMap<D4, usize> = BTreeMap::new();
                    for l in leaves.iter().filter(|l| !l.is_dummy()) {
                        *c.entry(l.exit1).or_insert(0) += 1;
                        *c.entry(l.exit2).or_insert(0) += 1;
                    }
                    c.values().any(|v| *v >= 3)
                };
                if dummy_with_amounts || thrice {
                    t.nontrivial(case_fp(leaves, pre));
                }
                if dummy_with_amounts {
                    t.class("C08:dummy-carrying-amounts");
                }
                if thrice {
                    t.class("C08:account>=3");
                }
                if leaves.iter().any(|l| !l.is_dummy() && (l.exit1 == [0; 4] || l.exit2 == [0; 4])) {
                    t.class("C08:real-pays-zero-account");
                }
            }
        }
        Which::C09 => {
            if let Some(pis) = out.pis() {
                let pis = pis.to_vec();
                let hdr = &pis[..8];
                let nul_start = 8 + 10 * n;
                let nuls = &pis[nul_start..nul_start + 4 * n];
                // (1) permutation of (slot, preimage) pairs
                let mut idx: Vec<usize> = (0..n).collect();
                rng.shuffle(&mut idx);
                let l2: Vec<LeafStmt> = idx.iter().map(|i| leaves[*i].clone()).collect();
                let p2: Vec<D4> = idx.iter().map(|i| pre[*i]).collect();
                let o2 = pc.circuit.eval(&pc.fill(&l2, &p2), &[]);
                t.eval();
                match o2.pis() {
                    None => t.violation(
                        "C09:perm-rejected".to_string(),
                        format!("accepted batch becomes unsatisfiable under permutation {:?}", idx),
                        json!({"kind": "priv_perm", "n": n, "batch": batch_json(leaves, pre), "perm": idx}),
                    ),
                    Some(q) => {
                        // asset is slot-0's asset (all equal), header otherwise first-real: invariant
                        if &q[..8] != hdr {
                            t.violation("C09:header-changes".to_string(), format!("header changes under permutation {:?}", idx),
                                        json!({"kind": "priv_perm", "n": n, "batch": batch_json(leaves, pre), "perm": idx}));
                        }
                        if &q[nul_start..nul_start + 4 * n] != nuls {
                            t.violation("C09:nullifier-region-changes".to_string(), format!("nullifier region changes under permutation {:?}", idx),
                                        json!({"kind": "priv_perm", "n": n, "batch": batch_json(leaves, pre), "perm": idx}));
                        }
                        // real exit groups permuted only by slot order: non-zero slots (as a sequence of
                        // (sum, account)) equal the first-occurrence order of accounts under the permutation
                        let groups = |p: &[u64]| -> Vec<Vec<u64>> {
                            (0..2 * n).map(|s| p[8 + 5 * s..13 + 5 * s].to_vec()).filter(|g| g.iter().any(|x| *x != 0)).collect()
                        };
                        let mut g1 = groups(&pis);
                        let g2 = groups(q);
                        let expected_order: Vec<Vec<u64>> = {
                            // first-occurrence order of accounts in l2 among real slots
                            let mut seen: Vec<D4> = vec![];
                            for l in l2.iter().filter(|l| !l.is_dummy()) {
                                for a in [l.exit1, l.exit2] {
                                    if !seen.contains(&a) {
                                        seen.push(a);
                                    }
                                }
                            }
                            let mut o = vec![];
                            for a in seen {
                                if let Some(g) = g1.iter().find(|g| g[1..5] == a) {
                                    o.push(g.clone());
                                }
                            }
                            o
                        };
                        // compare as multisets first
                        let mut s1 = g1.clone();
                        let mut s2 = g2.clone();
                        s1.sort();
                        s2.sort();
                        if s1 != s2 {
                            t.violation("C09:exit-groups-change".to_string(), format!("multiset of non-zero exit slots changes under permutation {:?}", idx),
                                        json!({"kind": "priv_perm", "n": n, "batch": batch_json(leaves, pre), "perm": idx}));
                        } else if zero_account_unpaid(leaves) && g2 != expected_order {
                            t.violation("C09:exit-order".to_string(), format!("non-zero exit slots are not in first-occurrence order under permutation {:?}", idx),
                                        json!({"kind": "priv_perm", "n": n, "batch": batch_json(leaves, pre), "perm": idx}));
                        }
                        g1.clear();
                    }
                }
                // (2) every dummy / duplicate / unused output slot is all-zero. When a real slot pays a
                // non-zero amount to the all-zero account the zero account's group sum is carried by its
                // first occurrence (statement C06/C08), which may be a masked dummy slot; that case is
                // excluded here and counted.
                if zero_account_unpaid(leaves) {
                    let mut seen: Vec<D4> = vec![];
                    for (i, l) in leaves.iter().enumerate() {
                        for (k, a) in [l.exit1, l.exit2].iter().enumerate() {
                            let s = 2 * i + k;
                            let slot = &pis[8 + 5 * s..13 + 5 * s];
                            let masked = if l.is_dummy() { [0u64; 4] } else { *a };
                            let should_be_zero = l.is_dummy() || seen.contains(&masked) || masked == [0; 4];
                            if should_be_zero && slot.iter().any(|x| *x != 0) {
                                t.violation("C09:nonzero-hidden-slot".to_string(),
                                    format!("output slot {} (dummy/duplicate/unused) is not the all-zero slot: {:?}", s, slot),
                                    json!({"kind": "priv_output", "n": n, "batch": batch_json(leaves, pre)}));
                            }
                            if !seen.contains(&masked) {
                                seen.push(masked);
                            }
                        }
                    }
                } else {
                    t.count("C09:excluded(real slot pays the zero account)", 1);
                }
                // (3) dummy contents never influence the output beyond H(H(u))
                if n_dummy > 0 {
                    let pools = pbatch::make_pools(rng);
                    let l3: Vec<LeafStmt> = leaves
                        .iter()
                        .map(|l| if l.is_dummy() { pbatch::gen_dummy(rng, &pools, l.asset) } else { l.clone() })
                        .collect();
                    let o3 = pc.circuit.eval(&pc.fill(&l3, pre), &[]);
                    t.eval();
                    if o3.pis() != Some(&pis[..]) {
                        t.violation("C09:dummy-content-visible".to_string(),
                            "rewriting dummy slot contents (same asset, same preimages) changes the output".to_string(),
                            json!({"kind": "priv_dummy_rewrite", "n": n, "batch": batch_json(leaves, pre), "rewritten": batch_json(&l3, pre)}));
                    }
                }
                if n_dummy > 0 && idx.iter().enumerate().any(|(a, b)| a != *b) {
                    t.nontrivial(case_fp(leaves, pre) ^ fnv_u64s(&idx.iter().map(|x| *x as u64).collect::<Vec<_>>()));
                }
            }
        }
    }
    out
}

fn zero_account_unpaid(leaves: &[LeafStmt]) -> bool {
    !leaves
        .iter()
        .any(|l| !l.is_dummy() && ((l.exit1 == [0; 4] && l.out1 != 0) || (l.exit2 == [0; 4] && l.out2 != 0)))
}

fn region_of(pos: usize, n: usize) -> &'static str {
    if pos < 8 {
        "header"
    } else if pos < 8 + 10 * n {
        "exit-slots"
    } else if pos < 8 + 14 * n {
        "nullifiers"
    } else {
        "padding"
    }
}

/// Reduced exhaustive domain per slot (values chosen to hit every clause).
fn small_domain() -> Vec<LeafStmt> {
    let a: D4 = [7, 0, 0, 1];
    let b: D4 = [7, 0, 0, 2];
    let z: D4 = [0; 4];
    let blocks: [(D4, u64); 3] = [([0; 4], 0), ([5, 6, 7, 8], 11), ([5, 6, 7, 9], 12)];
    let mut v = vec![];
    for (bh, bn) in blocks {
        for asset in [0u64, 1] {
            for fee in [1u64, 2] {
                for nul in [[1u64, 2, 3, 4], [1, 2, 3, 5]] {
                    for e1 in [z, a] {
                        for e2 in [a, b] {
                            for o1 in [1u64 << 31, 1] {
                                for o2 in [1u64 << 31, 0] {
                                    v.push(LeafStmt { asset, out1: o1, out2: o2, fee, nullifier: nul, exit1: e1, exit2: e2, block_hash: bh, block_number: bn });
                                }
                            }
                        }
                    }
                }
            }
        }
    }
    v
}

pub fn run(ctx: &Ctx, which: Which) {
    let sizes_random: Vec<usize> = ctx.tier.pick(vec![1, 2, 3, 4, 5, 8], vec![1, 2, 3, 4, 5, 6, 7, 8]);
    let big_sizes: Vec<usize> = ctx.tier.pick(vec![16], vec![16, 32, 64]);
    let mult = if matches!(which, Which::C07 | Which::C09) { 1 } else { 2 };
    let n_random: usize = ctx.tier.pick(40_000 * mult, 300_000 * mult);
    let n_big: usize = ctx.tier.pick(64, 600);
    let exhaustive_stride: usize = ctx.tier.pick(17, 1); // N=2 grid is sub-sampled in quick
    ctx.set_rule(&format!(
        "wrapper-only private-batch circuit (repo builder via hook, free child PIs) for N in {:?} + {:?}; cases: N=1 exhaustive and N=2 {} over a 384-value reduced slot domain \
         (dummy/2 blocks x asset x fee x nullifier x exits x amounts incl. 2^31), {} random vectors of leaf statements (real slots u32 amounts, dummy slots arbitrary felts incl. p-1, \
         accounts/nullifiers/blocks from small pools with one-limb-different digests, sums at 2^32 boundary), {} at large N. Oracle: {}. Non-trivial: {}.",
        sizes_random, big_sizes,
        if exhaustive_stride == 1 { "exhaustive".to_string() } else { format!("every {}-th point", exhaustive_stride) },
        n_random, n_big,
        match which {
            Which::C06 => "on every accepted case the 21N+8 public inputs equal the ~60-line reference aggregate",
            Which::C07 => "Sat <=> reference predicate (both directions), verdict invariant under slot permutation and dummy-content rewriting; disagreements confirmed by the real prover",
            Which::C08 => "sum of output slots == sum of (o1+o2) over real slots as integers; every non-zero slot equals the per-account total over real slots (computed from child PIs only)",
            Which::C09 => "permuting (slot,preimage) pairs keeps header and nullifier region, permutes non-zero exit groups to first-occurrence order; hidden slots all-zero; dummy contents invisible",
        },
        match which {
            Which::C06 => ">=1 real slot and (duplicate account or dummy slot or N>=3), accepted",
            Which::C07 => "exactly one conjunct away from the other verdict (one failing conjunct, or accepted with duplicate accounts / dummies)",
            Which::C08 => "a dummy carrying non-zero amounts or an account repeated >= 3 times",
            Which::C09 => "non-identity permutation with >= 1 dummy slot",
        }
    ));
    ctx.assume("implicit precondition from the leaf relation (C03): real slots with equal block hash carry equal block number");
    ctx.assume("real slots carry u32 amounts (C01); dummy slots carry arbitrary field elements");
    ctx.assume("wrapper-only circuit = the repo's build_private_batch_constraints over verifier-less child targets (cfg-gated re-export); C36/C14 tie it to the full recursive circuit");
    ctx.assume("Poseidon2 permutation of plonky2 is the trusted base of the reference H(H(u))");

    let mut all_sizes = sizes_random.clone();
    all_sizes.extend_from_slice(&big_sizes);
    let circuits = match build_circuits(&all_sizes, false) {
        Ok(c) => c,
        Err(e) => {
            ctx.tally.lock().unwrap().infra(format!("wrapper circuit build failed: {}", e));
            return;
        }
    };
    // one ZK-config instance to show the constraint logic is config independent
    let zk_circ = if ctx.tier == crate::util::Tier::Thorough { build_circuits(&[2], true).ok() } else { None };

    let workers = ctx.n_workers();
    let dom = small_domain();
    ctx.par(workers, |wi, t| {
        let mut rng = Rng::fork(ctx.seed, wi as u64);
        // exhaustive N=1
        let pc1 = &circuits[&1];
        for (i, l) in dom.iter().enumerate() {
            if i % workers != wi {
                continue;
            }
            decide(pc1, &[l.clone()], &[[i as u64, 1, 2, 3]], which, &mut rng, t);
            t.class("grid:N=1");
        }
        // N=2 grid
        let pc2 = &circuits[&2];
        let total = dom.len() * dom.len();
        let mut k = wi * exhaustive_stride;
        while k < total {
            let (i, j) = (k / dom.len(), k % dom.len());
            decide(pc2, &[dom[i].clone(), dom[j].clone()], &[[1, 2, 3, 4], [4, 3, 2, 1]], which, &mut rng, t);
            t.class("grid:N=2");
            k += workers * exhaustive_stride;
        }
        // random
        for c in 0..n_random.div_ceil(workers) {
            let n = sizes_random[(c + wi) % sizes_random.len()];
            let (l, p) = pbatch::gen_batch(&mut rng, n);
            let o = decide(&circuits[&n], &l, &p, which, &mut rng, t);
            if c < 2 {
                t.sample(json!({"n": n, "outcome": o.short(), "leaves": l.iter().map(|x| x.to_json()).collect::<Vec<_>>(), "preimages": p}));
            }
        }
        for c in 0..(if big_sizes.is_empty() { 0 } else { n_big.div_ceil(workers) }) {
            let n = big_sizes[(c + wi) % big_sizes.len()];
            let (l, p) = pbatch::gen_batch(&mut rng, n);
            decide(&circuits[&n], &l, &p, which, &mut rng, t);
        }
        if let Some(z) = &zk_circ {
            for _ in 0..8 {
                let (l, p) = pbatch::gen_batch(&mut rng, 2);
                let a = decide(&z[&2], &l, &p, which, &mut rng, t);
                let b = circuits[&2].circuit.eval(&circuits[&2].fill(&l, &p), &[]);
                if a != b && !(matches!(a, Outcome::Unsat(_)) && matches!(b, Outcome::Unsat(_))) {
                    t.infra("zk-config and non-zk wrapper circuits disagree".to_string());
                }
                t.class("zk-config-crosscheck");
            }
        }
    });
    shrink_violations(ctx, &circuits, which);
    if exhaustive_stride == 1 {
        ctx.extra("exhaustive_subspaces", json!(["N=1 x 384-value slot domain", "N=2 x 384^2 slot domain"]));
    } else {
        ctx.extra("exhaustive_subspaces", json!(["N=1 x 384-value slot domain"]));
    }
    // positive control: some accepted and some rejected cases must exist
    let tl = ctx.tally.lock().unwrap();
    let acc: u64 = tl.classes.iter().filter(|(k, _)| k.ends_with("|accept")).map(|(_, v)| *v).sum();
    let rej: u64 = tl.classes.iter().filter(|(k, _)| k.contains("|reject:")).map(|(_, v)| *v).sum();
    drop(tl);
    if acc == 0 || rej == 0 {
        ctx.tally.lock().unwrap().infra(format!("degenerate case stream: accepted={} rejected={}", acc, rej));
    }
    let _ = refm::P;
    let _ = Reject::Asset;
}

/// Shrinks the first recorded case of every violation signature (C06–C09): slots are dropped
/// (delta debugging over the slot list, building the smaller wrapper circuit on demand) and the
/// remaining public-input values are simplified towards 0/1, each candidate being re-decided from
/// scratch and kept only when the *same signature* is reported again. The shrunk batch replaces the
/// case in the replay file; the original size is kept as `shrunk_from_n`.
fn shrink_violations(ctx: &Ctx, circuits: &BTreeMap<usize, PrivCircuit>, which: Which) {
    let mut vs = std::mem::take(&mut ctx.tally.lock().unwrap().violations);
    let mut extra_circuits: BTreeMap<usize, PrivCircuit> = BTreeMap::new();
    let mut done: Vec<String> = vec![];
    let mut shrink_log = vec![];
    for v in vs.iter_mut() {
        if done.contains(&v.signature) || done.len() >= 6 {
            continue;
        }
        let Some((l0, p0)) = pbatch::batch_from_json(&v.case["batch"]) else { continue };
        done.push(v.signature.clone());
        let sig = v.signature.clone();
        let evals = std::cell::Cell::new(0usize);
        let test = |l: &[LeafStmt], p: &[D4], extra: &mut BTreeMap<usize, PrivCircuit>| -> Option<crate::util::Violation> {
            let n = l.len();
            if n == 0 || p.len() != n {
                return None;
            }
            if !circuits.contains_key(&n) && !extra.contains_key(&n) {
                match build_circuits(&[n], false) {
                    Ok(mut m) => {
                        if let Some(pc) = m.remove(&n) {
                            extra.insert(n, pc);
                        }
                    }
                    Err(_) => return None,
                }
            }
            let pc = circuits.get(&n).or_else(|| extra.get(&n))?;
            evals.set(evals.get() + 1);
            // a few decision RNGs: C09's permutation / rewriting sub-checks draw from it
            for k in 0..(if matches!(which, Which::C09) { 3u64 } else { 1 }) {
                let mut rng = Rng::fork(0x5eed_5a1e ^ k, n as u64);
                let mut t = Tally::new();
                decide(pc, l, p, which, &mut rng, &mut t);
                if let Some(found) = t.violations.into_iter().find(|x| x.signature == sig) {
                    return Some(found);
                }
            }
            None
        };
        crate::engine::e1::FAST_CONFIRM.with(|c| c.set(true));
        if test(&l0, &p0, &mut extra_circuits).is_none() {
            crate::engine::e1::FAST_CONFIRM.with(|c| c.set(false));
            continue; // not reproducible outside its generation context: keep the original case
        }
        // (1) drop slots
        let idx: Vec<usize> = (0..l0.len()).collect();
        let kept = crate::util::ddmin(idx, |keep| {
            if keep.is_empty() || evals.get() > 300 {
                return false;
            }
            let l: Vec<LeafStmt> = keep.iter().map(|i| l0[*i].clone()).collect();
            let p: Vec<D4> = keep.iter().map(|i| p0[*i]).collect();
            test(&l, &p, &mut extra_circuits).is_some()
        });
        let kept = if kept.is_empty() { (0..l0.len()).collect() } else { kept };
        let l1: Vec<LeafStmt> = kept.iter().map(|i| l0[*i].clone()).collect();
        let p1: Vec<D4> = kept.iter().map(|i| p0[*i]).collect();
        // (2) simplify values (flattened: 21 public inputs per slot, then 4 preimage limbs per slot)
        let n = l1.len();
        let mut flat: Vec<u64> = l1.iter().flat_map(|l| l.pis().to_vec()).collect();
        flat.extend(p1.iter().flat_map(|d| d.to_vec()));
        let unflat = |f: &[u64]| -> (Vec<LeafStmt>, Vec<D4>) {
            let l = (0..n).map(|i| LeafStmt::from_pis(&f[21 * i..21 * i + 21])).collect();
            let p = (0..n).map(|i| [f[21 * n + 4 * i], f[21 * n + 4 * i + 1], f[21 * n + 4 * i + 2], f[21 * n + 4 * i + 3]]).collect();
            (l, p)
        };
        let flat = crate::util::simplify_u64s(flat, |f| {
            if evals.get() > 1200 {
                return false;
            }
            let (l, p) = unflat(f);
            test(&l, &p, &mut extra_circuits).is_some()
        });
        let (l2, p2) = unflat(&flat);
        crate::engine::e1::FAST_CONFIRM.with(|c| c.set(false)); // the shrunk case is confirmed by the real prover
        if let Some(found) = test(&l2, &p2, &mut extra_circuits) {
            shrink_log.push(json!({"signature": sig, "slots": [l0.len(), l2.len()], "nonzero_values": [l0.iter().flat_map(|l| l.pis().to_vec()).filter(|x| *x != 0).count(), flat.iter().take(21 * n).filter(|x| **x != 0).count()], "re-decisions": evals.get()}));
            let mut case = found.case;
            case["shrunk_from_n"] = json!(l0.len());
            v.case = case;
            v.description = format!("{} [shrunk from N={} to N={}]", found.description, l0.len(), l2.len());
        }
    }
    ctx.tally.lock().unwrap().violations = vs;
    if !shrink_log.is_empty() {
        ctx.extra("shrinking", json!(shrink_log));
    }
}

/// Replay for priv_* kinds (C06–C09): re-evaluate and report whether circuit and
/// reference still disagree in the recorded way.
pub fn replay(case: &serde_json::Value, which: Which) -> Result<bool, String> {
    let n = case["n"].as_u64().ok_or("n")? as usize;
    let (l, p) = pbatch::batch_from_json(&case["batch"]).ok_or("batch")?;
    let circuits = build_circuits(&[n], false)?;
    let mut t = Tally::new();
    let mut rng = Rng::new(1);
    // permutation replays re-run the generic decision a few times with different permutations
    for s in 0..16 {
        let mut r2 = Rng::new(s);
        decide(&circuits[&n], &l, &p, which, &mut r2, &mut t);
    }
    let _ = &mut rng;
    Ok(!t.violations.is_empty())
}
