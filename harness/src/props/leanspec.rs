//! C34 — the Lean specification type-checks and the circuit matches its executable
//! definitions (E7 + E1). Lean is used as an *executable oracle*: the repo's own
//! `groupExits (maskedChildPairs ..)`, `find? isRealB` and `nullifiersSorted` are
//! evaluated by `lean` on the cases the wrapper circuit accepted.

use serde_json::json;
use std::path::{Path, PathBuf};
use std::process::Command;

use crate::pbatch::{self, LeafStmt};
use crate::props::privprops;
use crate::refm::D4;
use crate::util::rng::Rng;
use crate::util::{fnv_u64s, Ctx, Tally};

const PRELUDE: &str = r#"import WormholeSpec
open WormholeSpec

instance (a b : Digest) : Decidable (digestLt a b) := by unfold digestLt; infer_instance
instance (a b : Digest) : Decidable (digestLE a b) := by unfold digestLE; infer_instance
instance (ns : List Digest) : Decidable (nullifiersSorted ns) := by unfold nullifiersSorted; infer_instance

def mkLeaf (v : List Nat) : LeafPublic :=
  { assetId := v[0]!, outputAmount1 := v[1]!, outputAmount2 := v[2]!, volumeFeeBps := v[3]!,
    nullifier := ⟨v[4]!, v[5]!, v[6]!, v[7]!⟩, exitAccount1 := ⟨v[8]!, v[9]!, v[10]!, v[11]!⟩,
    exitAccount2 := ⟨v[12]!, v[13]!, v[14]!, v[15]!⟩, blockHash := ⟨v[16]!, v[17]!, v[18]!, v[19]!⟩, blockNumber := v[20]! }

def slotsOut (ls : List LeafPublic) : List (List Nat) :=
  (groupExits (maskedChildPairs ls)).map (fun s => [s.sum, s.account.x0, s.account.x1, s.account.x2, s.account.x3])

def refOut (ls : List LeafPublic) : List Nat :=
  match ls.find? isRealB with
  | some p => [1, p.blockHash.x0, p.blockHash.x1, p.blockHash.x2, p.blockHash.x3, p.blockNumber, p.assetId, p.volumeFeeBps]
  | none => [0]

def mkDigests : List Nat → List Digest
  | a :: b :: c :: d :: rest => ⟨a, b, c, d⟩ :: mkDigests rest
  | _ => []

def runCase (i : Nat) (leaves : List (List Nat)) (nulls : List Nat) : IO Unit := do
  let ls := leaves.map mkLeaf
  IO.println s!"CASE {i} SLOTS {slotsOut ls} REF {refOut ls} SORTED {decide (nullifiersSorted (mkDigests nulls))} TOTALS {slotsTotal (groupExits (maskedChildPairs ls))} {inputExitTotal ls}"

"#;

struct Case {
    n: usize,
    leaves: Vec<LeafStmt>,
    pre: Vec<D4>,
    pis: Vec<u64>,
}

fn run_cmd(dir: &Path, prog: &str, args: &[&str]) -> Result<(bool, String), String> {
    let out = Command::new(prog).args(args).current_dir(dir).output().map_err(|e| format!("cannot run {}: {}", prog, e))?;
    let mut s = String::from_utf8_lossy(&out.stdout).to_string();
    s.push_str(&String::from_utf8_lossy(&out.stderr));
    Ok((out.status.success(), s))
}

fn copy_dir(src: &Path, dst: &Path) -> std::io::Result<()> {
    std::fs::create_dir_all(dst)?;
    for e in std::fs::read_dir(src)? {
        let e = e?;
        let p = e.path();
        let name = e.file_name();
        if name == ".lake" {
            continue;
        }
        if p.is_dir() {
            copy_dir(&p, &dst.join(name))?;
        } else {
            std::fs::copy(&p, dst.join(name))?;
        }
    }
    Ok(())
}

/// (fully qualified theorem names, axioms declared by the spec) parsed from the sources.
fn theorem_names(dir: &Path) -> (Vec<String>, Vec<String>) {
    let mut thms = vec![];
    let mut axioms = vec![];
    let Ok(rd) = std::fs::read_dir(dir.join("WormholeSpec")) else { return (thms, axioms) };
    let mut files: Vec<PathBuf> = rd.flatten().map(|e| e.path()).filter(|p| p.extension().map(|x| x == "lean").unwrap_or(false)).collect();
    files.sort();
    for f in files {
        let Ok(src) = std::fs::read_to_string(&f) else { continue };
        let mut ns: Vec<String> = vec![];
        for line in src.lines() {
            let l = line.trim_start();
            if let Some(rest) = l.strip_prefix("namespace ") {
                ns.push(rest.trim().to_string());
            } else if let Some(rest) = l.strip_prefix("end ") {
                if ns.last().map(|x| x == rest.trim()).unwrap_or(false) {
                    ns.pop();
                }
            } else if line.starts_with("theorem ") || line.starts_with("axiom ") || line.starts_with("private theorem ") || line.starts_with("protected theorem ") {
                let is_axiom = line.starts_with("axiom ");
                let after = line.split_whitespace().skip_while(|w| *w != "theorem" && *w != "axiom").nth(1).unwrap_or("");
                let name: String = after.chars().take_while(|c| c.is_alphanumeric() || *c == '_' || *c == '.' || *c == '\'').collect();
                if name.is_empty() {
                    continue;
                }
                let full = if ns.is_empty() { name } else { format!("{}.{}", ns.join("."), name) };
                if is_axiom {
                    axioms.push(full);
                } else {
                    thms.push(full);
                }
            }
        }
    }
    (thms, axioms)
}

pub fn run(ctx: &Ctx) {
    let n_cases = ctx.tier.pick(2_000usize, 60_000);
    let chunk = 250usize;
    ctx.set_rule(&format!(
        "precondition (a build step, reported as such): `lake build` of a scratch copy of /repo/formal succeeds without `sorry`, and `#print axioms` of every theorem of the package stays within {{propext, Quot.sound, Classical.choice}} plus the axioms the spec itself declares (Trusted.lean). \
         Generated search: {} batches accepted by the wrapper-only private-batch circuit (N in 1..8, all C06 generator classes: first real slot at every index, all-dummy, duplicate accounts, zero account, structured near-equal digests, sums at the 2^32 boundary), exported as Lean literals in chunks of {}; for each, Lean evaluates the spec's own groupExits (maskedChildPairs leaves), leaves.find? isRealB, nullifiersSorted (circuit's nullifier region) and slotsTotal / inputExitTotal; \
         the harness compares exit slots, header fields (first real child, zero hash if none), sortedness and conservation with the circuit's public inputs. The Rust reference model of C06 is not involved. Non-trivial: >= 1 real slot and (duplicate account or dummy slot or N >= 3).",
        n_cases, chunk));
    ctx.assume("`nullifiersReplaced` uses the abstract oracle `ro` and is not executable: dummy-nullifier replacement is covered by C06 only");
    ctx.assume("Lean 4.33 of this image builds the package pinned to 4.30 (the toolchain file is ignored here)");
    let scratch = std::env::temp_dir().join(format!("qpv-c34-{}", std::process::id()));
    let _ = std::fs::remove_dir_all(&scratch);
    let mut t = Tally::new();
    // ---------- build precondition ----------
    if let Err(e) = copy_dir(Path::new("/repo/formal"), &scratch) {
        t.infra(format!("cannot copy /repo/formal: {}", e));
        ctx.merge(t);
        return;
    }
    match run_cmd(&scratch, "lake", &["build"]) {
        Err(e) => {
            t.infra(e);
            ctx.merge(t);
            let _ = std::fs::remove_dir_all(&scratch);
            return;
        }
        Ok((ok, out)) => {
            t.eval();
            if !ok {
                t.violation("C34:spec-does-not-build", format!("`lake build` of the formal specification fails: {}", out.lines().filter(|l| l.contains("error")).take(5).collect::<Vec<_>>().join(" | ")), json!({"kind": "c34_build"}));
                ctx.merge(t);
                let _ = std::fs::remove_dir_all(&scratch);
                return;
            }
            if out.contains("declaration uses 'sorry'") || out.contains("declaration uses `sorry`") {
                t.violation("C34:sorry", "the specification builds only with `sorry`".to_string(), json!({"kind": "c34_build"}));
            }
            t.class("lake build|ok");
        }
    }
    // ---------- axioms ----------
    let (thms, spec_axioms) = theorem_names(&scratch);
    {
        let mut src = String::from("import WormholeSpec\n");
        for th in &thms {
            src.push_str(&format!("#print axioms {}\n", th));
        }
        std::fs::write(scratch.join("QpvAxioms.lean"), src).unwrap();
        match run_cmd(&scratch, "lake", &["env", "lean", "QpvAxioms.lean"]) {
            Err(e) => t.infra(e),
            Ok((_, out)) => {
                let allowed: Vec<String> = ["propext", "Quot.sound", "Classical.choice"].iter().map(|s| s.to_string()).chain(spec_axioms.iter().cloned()).collect();
                let mut checked = 0usize;
                // outputs may wrap over several lines: join and split on the quote that starts an entry
                let joined = out.replace('\n', " ");
                for entry in joined.split("'").collect::<Vec<_>>().chunks(2) {
                    if entry.len() < 2 {
                        continue;
                    }
                    let (name, rest) = (entry[0].trim(), entry[1]);
                    let _ = name;
                    let _ = rest;
                }
                for th in &thms {
                    let key = format!("'{}'", th);
                    let Some(pos) = joined.find(&key) else { continue };
                    let tail = &joined[pos + key.len()..];
                    checked += 1;
                    t.eval();
                    if tail.trim_start().starts_with("does not depend on any axioms") {
                        continue;
                    }
                    if let (Some(a), Some(b)) = (tail.find('['), tail.find(']')) {
                        if a < b {
                            for ax in tail[a + 1..b].split(',') {
                                let ax = ax.trim();
                                if ax.is_empty() {
                                    continue;
                                }
                                if !allowed.iter().any(|x| x == ax) {
                                    t.violation("C34:unexpected-axiom", format!("theorem {} depends on axiom {} (allowed: {:?})", th, ax, allowed), json!({"kind": "c34_axioms", "theorem": th, "axiom": ax}));
                                }
                            }
                        }
                    }
                }
                t.count("theorems whose axioms were printed", checked as u64);
                if checked * 2 < thms.len() || thms.len() < 10 {
                    t.infra(format!("axiom listing covered only {} of {} theorems: {}", checked, thms.len(), out.lines().take(6).collect::<Vec<_>>().join(" | ")));
                }
                t.class("axioms|checked");
            }
        }
    }
    ctx.merge(t);
    // ---------- cases from the circuit ----------
    let sizes = [1usize, 2, 3, 4, 5, 8];
    let circuits = match privprops::build_circuits(&sizes, false) {
        Ok(c) => c,
        Err(e) => {
            ctx.tally.lock().unwrap().infra(e);
            let _ = std::fs::remove_dir_all(&scratch);
            return;
        }
    };
    let workers = ctx.n_workers();
    let per = n_cases.div_ceil(workers);
    let scratch_ref = &scratch;
    let circuits = &circuits;
    ctx.par(workers, |wi, t| {
        let mut rng = Rng::fork(ctx.seed, wi as u64);
        let mut cases: Vec<Case> = vec![];
        let mut attempts = 0;
        while cases.len() < per && attempts < per * 6 {
            attempts += 1;
            let n = sizes[(attempts + wi) % sizes.len()];
            let (l, p) = if rng.chance(3, 4) { pbatch::gen_accepted(&mut rng, n) } else { pbatch::gen_batch(&mut rng, n) };
            let pc = &circuits[&n];
            if let Some(pis) = pc.circuit.eval(&pc.fill(&l, &p), &[]).pis() {
                cases.push(Case { n, leaves: l, pre: p, pis: pis.to_vec() });
            }
        }
        for (ci, chunk_cases) in cases.chunks(chunk).enumerate() {
            let fname = format!("QpvCases_{}_{}.lean", wi, ci);
            let mut src = String::from(PRELUDE);
            for (i, c) in chunk_cases.iter().enumerate() {
                let leaves: Vec<String> = c.leaves.iter().map(|l| format!("[{}]", l.pis().iter().map(|x| x.to_string()).collect::<Vec<_>>().join(","))).collect();
                let nb = 8 + 10 * c.n;
                let nulls: Vec<String> = c.pis[nb..nb + 4 * c.n].iter().map(|x| x.to_string()).collect();
                src.push_str(&format!("#eval runCase {} [{}] [{}]\n", i, leaves.join(","), nulls.join(",")));
            }
            std::fs::write(scratch_ref.join(&fname), src).unwrap();
            let out = match run_cmd(scratch_ref, "lake", &["env", "lean", &fname]) {
                Ok((_, o)) => o,
                Err(e) => {
                    t.infra(e);
                    return;
                }
            };
            let mut seen = 0usize;
            for line in out.lines() {
                let Some(rest) = line.strip_prefix("CASE ") else { continue };
                let idx: usize = rest.split_whitespace().next().and_then(|x| x.parse().ok()).unwrap_or(usize::MAX);
                let Some(c) = chunk_cases.get(idx) else { continue };
                seen += 1;
                t.eval();
                judge_case(c, rest, t);
            }
            if seen != chunk_cases.len() {
                t.infra(format!("Lean evaluated {} of {} cases in {}: {}", seen, chunk_cases.len(), fname, out.lines().filter(|l| l.contains("error")).take(3).collect::<Vec<_>>().join(" | ")));
            }
            let _ = std::fs::remove_file(scratch_ref.join(&fname));
        }
    });
    let _ = std::fs::remove_dir_all(&scratch);
}

fn parse_nat_lists(s: &str) -> Vec<Vec<u128>> {
    // "[[1, 2], [3]]" -> [[1,2],[3]]
    let mut out = vec![];
    let mut cur: Option<Vec<u128>> = None;
    let mut num = String::new();
    let mut depth = 0;
    for ch in s.chars() {
        match ch {
            '[' => {
                depth += 1;
                if depth == 2 {
                    cur = Some(vec![]);
                }
            }
            ']' => {
                if !num.is_empty() {
                    if let Some(c) = cur.as_mut() {
                        c.push(num.parse().unwrap_or(u128::MAX));
                    }
                    num.clear();
                }
                if depth == 2 {
                    out.push(cur.take().unwrap_or_default());
                }
                depth -= 1;
            }
            ',' | ' ' => {
                if !num.is_empty() {
                    if let Some(c) = cur.as_mut() {
                        c.push(num.parse().unwrap_or(u128::MAX));
                    }
                    num.clear();
                }
            }
            d if d.is_ascii_digit() => num.push(d),
            _ => {}
        }
    }
    out
}

fn judge_case(c: &Case, line: &str, t: &mut Tally) {
    let n = c.n;
    let case = json!({"kind": "c34_case", "n": n, "batch": pbatch::batch_json(&c.leaves, &c.pre), "lean": line});
    let Some(si) = line.find(" SLOTS ") else { return };
    let Some(ri) = line.find(" REF ") else { return };
    let Some(so) = line.find(" SORTED ") else { return };
    let Some(ti) = line.find(" TOTALS ") else { return };
    let slots = parse_nat_lists(&line[si + 7..ri]);
    let refl: Vec<u128> = line[ri + 5..so].trim().trim_matches(|ch| ch == '[' || ch == ']').split(',').filter_map(|x| x.trim().parse().ok()).collect();
    let sorted = line[so + 8..ti].trim() == "true";
    let totals: Vec<u128> = line[ti + 8..].split_whitespace().filter_map(|x| x.parse().ok()).collect();
    // exit slots
    let circ_slots: Vec<Vec<u128>> = (0..2 * n).map(|s| c.pis[8 + 5 * s..13 + 5 * s].iter().map(|x| *x as u128).collect()).collect();
    if slots != circ_slots {
        let k = slots.iter().zip(circ_slots.iter()).position(|(a, b)| a != b);
        t.violation("C34:exit-slots-differ-from-spec", format!("circuit exit slots differ from the spec's groupExits (maskedChildPairs leaves) at slot {:?} (spec {:?}, circuit {:?})", k, k.map(|i| slots[i].clone()), k.map(|i| circ_slots[i].clone())), case.clone());
    }
    // header reference
    match refl.first() {
        Some(1) if refl.len() == 8 => {
            let want: Vec<u128> = vec![1, c.pis[3] as u128, c.pis[4] as u128, c.pis[5] as u128, c.pis[6] as u128, c.pis[7] as u128, c.pis[1] as u128, c.pis[2] as u128];
            if refl != want {
                t.violation("C34:first-real-reference-differs", format!("circuit header (hash, number, asset, fee) {:?} differs from the spec's first real child {:?}", &want[1..], &refl[1..]), case.clone());
            }
        }
        Some(0) => {
            if c.pis[3..7] != [0, 0, 0, 0] {
                t.violation("C34:all-dummy-reference-differs", "spec says no real child (zero block hash) but the circuit's header hash is non-zero".to_string(), case.clone());
            }
        }
        _ => t.infra("unparsable REF output".to_string()),
    }
    if !sorted {
        t.violation("C34:nullifier-region-not-sorted-per-spec", "the circuit's nullifier region is not `nullifiersSorted` under the spec's digestLE".to_string(), case.clone());
    }
    if totals.len() == 2 && totals[0] != totals[1] {
        t.infra("spec's own conservation theorem contradicted by evaluation".to_string());
    }
    let n_real = c.leaves.iter().filter(|l| !l.is_dummy()).count();
    let dup = {
        let mut a: Vec<D4> = c.leaves.iter().filter(|l| !l.is_dummy()).flat_map(|l| [l.exit1, l.exit2]).collect();
        let len = a.len();
        a.sort();
        a.dedup();
        a.len() < len
    };
    t.class(&format!("N={}|real={}", n, n_real.min(3)));
    if n_real >= 1 && (dup || n_real < n || n >= 3) {
        t.nontrivial(fnv_u64s(&c.pis));
    }
    if t.samples.len() < 3 {
        t.sample(json!({"n": n, "leaves": c.leaves.iter().map(|l| l.to_json()).collect::<Vec<_>>(), "lean_output": line.chars().take(400).collect::<String>()}));
    }
}
