//! C14 (provers admit exactly what the circuit can prove), C15 (padding / shuffle /
//! preimages) and the pass-through half of C16 (padding templates) — E4 over cheap
//! child circuits: a 21-public-input (resp. 21n+8) pass-through circuit produces valid
//! child proofs with arbitrary public inputs in a few ms, and the repo's provers are
//! built over it through their public constructors.

use plonky2::field::types::{Field, PrimeField64};
use plonky2::iop::target::Target;
use plonky2::iop::witness::{PartialWitness, Witness, WitnessWrite};
use plonky2::plonk::circuit_data::{CircuitData, VerifierCircuitData};
use plonky2::plonk::proof::ProofWithPublicInputs;
use serde_json::{json, Value};
use std::collections::{BTreeMap, HashSet};
use wormhole_aggregator::private_batch::circuit::circuit_logic::PrivateBatchCircuit;
use wormhole_aggregator::private_batch::prover::PrivateBatchProver;
use wormhole_aggregator::public_batch::circuit::circuit_logic::PublicBatchCircuit;
use wormhole_aggregator::public_batch::prover::{PublicBatchInputs, PublicBatchProver};
use zk_circuits_common::circuit::{wormhole_private_batch_circuit_config, wormhole_public_batch_circuit_config, C, D, F};
use zk_circuits_common::utils::BytesDigest;

use crate::pbatch::{self, LeafStmt, Reject};
use crate::props::config::passthrough;
use crate::pubbatch::{self, Inner};
use crate::refm::{self, D4, P};
use crate::util::rng::Rng;
use crate::util::{catch, fnv_u64s, Ctx, Tally};

type Proof = ProofWithPublicInputs<F, C, D>;

pub struct Pt {
    pub data: CircuitData<F, C, D>,
    pub targets: Vec<Target>,
}

impl Pt {
    pub fn new(num_pis: usize) -> Pt {
        let (data, targets) = passthrough(num_pis);
        Pt { data, targets }
    }
    pub fn prove(&self, pis: &[u64]) -> Result<Proof, String> {
        let mut pw = PartialWitness::new();
        for (t, v) in self.targets.iter().zip(pis.iter()) {
            pw.set_target(*t, F::from_canonical_u64(*v)).map_err(|e| e.to_string())?;
        }
        self.data.prove(pw).map_err(|e| e.to_string())
    }
    pub fn tampered(&self, pis: &[u64], rng: &mut Rng) -> Result<Proof, String> {
        // a proof whose public inputs were edited after proving: right shape, fails verification
        let mut honest = pis.to_vec();
        let i = rng.usize(honest.len());
        honest[i] = refm::fadd(honest[i], 1);
        let mut p = self.prove(&honest)?;
        p.public_inputs = pis.iter().map(|x| F::from_canonical_u64(*x)).collect();
        Ok(p)
    }
}

pub fn template_stmt(rng: &mut Rng) -> LeafStmt {
    LeafStmt { asset: 0, out1: 0, out2: 0, fee: rng.below(10001), nullifier: [rng.felt(), rng.felt(), rng.felt(), rng.felt()], exit1: [0; 4], exit2: [0; 4], block_hash: [0; 4], block_number: rng.u32() as u64 }
}

fn pis_of(p: &Proof) -> Vec<u64> {
    p.public_inputs.iter().map(|f| f.to_canonical_u64()).collect()
}

// =============================================================== C14 =========

pub struct PrivFixture {
    pub leaf: Pt,
    pub template: LeafStmt,
    pub template_proof: Proof,
    verifiers: std::cell::RefCell<BTreeMap<usize, VerifierCircuitData<F, C, D>>>,
}

impl PrivFixture {
    pub fn new(rng: &mut Rng) -> Result<PrivFixture, String> {
        let leaf = Pt::new(21);
        let template = template_stmt(rng);
        let template_proof = leaf.prove(&template.pis())?;
        Ok(PrivFixture { leaf, template, template_proof, verifiers: Default::default() })
    }
    pub fn prover(&self, n: usize) -> Result<PrivateBatchProver, String> {
        PrivateBatchProver::new(wormhole_private_batch_circuit_config(), self.leaf.data.common.clone(), &self.leaf.data.verifier_only, n, self.template_proof.clone()).map_err(|e| e.to_string())
    }
    pub fn verify(&self, n: usize, proof: &Proof) -> Result<(), String> {
        let mut m = self.verifiers.borrow_mut();
        if !m.contains_key(&n) {
            let vd = PrivateBatchCircuit::new(wormhole_private_batch_circuit_config(), &self.leaf.data.common, &self.leaf.data.verifier_only, n).map_err(|e| e.to_string())?.build_verifier();
            m.insert(n, vd);
        }
        m[&n].verify(proof.clone()).map_err(|e| e.to_string())
    }
}

#[derive(Clone, Debug)]
pub struct Supplied {
    pub stmt: LeafStmt,
    pub tampered: bool,
}

/// Documented admission policies of the private-batch prover (C14); None = all pass.
fn priv_policy_failure(n: usize, v: &[Supplied]) -> Option<&'static str> {
    if v.is_empty() {
        return Some("empty");
    }
    if v.len() > n {
        return Some("too-many");
    }
    if v.iter().any(|s| s.tampered) {
        return Some("invalid-proof");
    }
    if v.iter().all(|s| s.stmt.is_dummy()) {
        return Some("no-real-proof");
    }
    if v.len() < n && v.iter().any(|s| s.stmt.asset != 0) {
        return Some("padding-asset");
    }
    None
}

fn gen_supplied(rng: &mut Rng, n: usize) -> Vec<Supplied> {
    let k = match rng.below(12) {
        0 => 0,
        1 => n + 1,
        _ => 1 + rng.usize(n),
    };
    if k == 0 {
        return vec![];
    }
    let (mut leaves, _) = if rng.chance(2, 3) { pbatch::gen_accepted(rng, k) } else { pbatch::gen_batch(rng, k) };
    // padding requires the native asset: make that the common case
    if rng.chance(3, 4) {
        for l in leaves.iter_mut() {
            l.asset = 0;
        }
    }
    // real slots must look like leaf statements a leaf proof can carry (u32 scalars)
    for l in leaves.iter_mut() {
        if !l.is_dummy() {
            l.fee %= 10001;
        }
    }
    // grouped sums at the 2^32 boundary (the reference decides provability): any 2..3 output
    // positions of the real leaves -- including both outputs of one leaf -- pay one account and
    // their amounts sum to 2^32-1, 2^32 or 2^32+1
    if rng.chance(1, 3) {
        let mut positions: Vec<(usize, usize)> = vec![];
        for (i, l) in leaves.iter().enumerate() {
            if !l.is_dummy() {
                positions.push((i, 0));
                positions.push((i, 1));
            }
        }
        if positions.len() >= 2 {
            // bias towards "both outputs of one leaf" (a single real leaf can overflow on its own)
            let chosen: Vec<(usize, usize)> = if rng.chance(1, 2) {
                let i = positions[rng.usize(positions.len())].0;
                vec![(i, 0), (i, 1)]
            } else {
                rng.shuffle(&mut positions);
                positions.truncate(2 + rng.usize(2).min(positions.len() - 2));
                positions.clone()
            };
            let acct = if rng.chance(1, 4) { [0u64; 4] } else { leaves[chosen[0].0].exit1 };
            let target: u64 = *rng.pick(&[(1u64 << 32) - 1, 1 << 32, (1 << 32) + 1]);
            let mut rest = target;
            for (k, (i, o)) in chosen.iter().enumerate() {
                let amt = if k + 1 == chosen.len() { rest.min(u32::MAX as u64) } else { let a = (rest / 2).min(u32::MAX as u64); a };
                rest -= amt;
                if *o == 0 {
                    leaves[*i].exit1 = acct;
                    leaves[*i].out1 = amt;
                } else {
                    leaves[*i].exit2 = acct;
                    leaves[*i].out2 = amt;
                }
            }
        }
    }
    leaves.into_iter().map(|stmt| Supplied { stmt, tampered: rng.chance(1, 14) }).collect()
}

fn supplied_json(n: usize, v: &[Supplied]) -> Value {
    json!({"n": n, "supplied": v.iter().map(|s| json!({"pis": s.stmt.pis().to_vec(), "tampered": s.tampered})).collect::<Vec<_>>()})
}

fn c14_private_case(fx: &PrivFixture, n: usize, v: &[Supplied], rng: &mut Rng, t: &mut Tally, known: &[String]) {
    t.eval();
    let case = json!({"kind": "c14_private", "case": supplied_json(n, v)});
    let proofs: Result<Vec<Proof>, String> = v.iter().map(|s| if s.tampered { fx.leaf.tampered(&s.stmt.pis(), rng) } else { fx.leaf.prove(&s.stmt.pis()) }).collect();
    let proofs = match proofs {
        Ok(p) => p,
        Err(e) => {
            t.infra(format!("child proving failed: {}", e));
            return;
        }
    };
    let policy = priv_policy_failure(n, v);
    // provability of the padded batch by the reference acceptance predicate (C07)
    let mut padded: Vec<LeafStmt> = v.iter().map(|s| s.stmt.clone()).collect();
    while padded.len() < n {
        padded.push(fx.template.clone());
    }
    let pre: Vec<D4> = (0..padded.len()).map(|i| [i as u64 + 1, 2, 3, 4]).collect();
    let reference = if padded.len() == n { Some(pbatch::reference(&padded, &pre)) } else { None };
    let provable = reference.as_ref().map(|r| r.verdict.is_ok()).unwrap_or(false);
    let prover = match fx.prover(n) {
        Ok(p) => p,
        Err(e) => {
            t.infra(format!("prover construction failed: {}", e));
            return;
        }
    };
    let targets = prover.verif_targets();
    let committed = catch(|| prover.commit(proofs));
    t.class(&format!("private|N={}|policy:{}|{}", n, policy.unwrap_or("pass"), if provable { "provable" } else { "unprovable" }));
    if policy.is_none() {
        t.nontrivial(fnv_u64s(&v.iter().flat_map(|s| s.stmt.pis().to_vec()).collect::<Vec<_>>()) ^ n as u64);
    }
    match committed {
        Err(p) => t.violation("C14:private:commit-panics", format!("PrivateBatchProver::commit panicked: {}", p), case),
        Ok(Err(e)) => {
            if policy.is_none() && provable {
                t.violation("C14:private:rejects-provable-batch", format!("commit rejected a vector of valid proofs that passes every documented policy although the padded batch is provable: {}", e), case);
            }
        }
        Ok(Ok(committed)) => {
            if let Some(p) = policy {
                t.violation(format!("C14:private:accepts-{}", p), format!("commit accepted a proof vector failing the documented policy '{}'", p), case.clone());
                return;
            }
            // read the committed slot order for the full-circuit output cross-check
            let order: Option<Vec<Vec<u64>>> = targets.as_ref().map(|tg| {
                let pw = committed.verif_partial_witness();
                tg.leaf_proofs.iter().map(|pt| pt.public_inputs.iter().map(|x| pw.try_get_target(*x).map(|f| f.to_canonical_u64()).unwrap_or(u64::MAX)).collect()).collect()
            });
            let preimgs: Option<Vec<D4>> = targets.as_ref().map(|tg| {
                let pw = committed.verif_partial_witness();
                tg.dummy_nullifier_pre_images.iter().map(|q| [0, 1, 2, 3].map(|j| pw.try_get_target(q[j]).map(|f| f.to_canonical_u64()).unwrap_or(u64::MAX))).collect()
            });
            let proved = catch(|| committed.prove());
            let ok = match &proved {
                Ok(Ok(p)) => fx.verify(n, p).is_ok(),
                _ => false,
            };
            if !ok {
                let why = match &proved {
                    Err(p) => format!("prove panicked: {}", p),
                    Ok(Err(e)) => format!("prove failed: {}", e),
                    Ok(Ok(_)) => "proof does not verify".to_string(),
                };
                let sig = match reference.as_ref().and_then(|r| r.failing.first()) {
                    Some(Reject::SumRange) => "C14:private:accepted-but-unprovable:grouped-sum>=2^32".to_string(),
                    Some(r) => format!("C14:private:accepted-but-unprovable:{:?}", r),
                    None => "C14:private:accepted-but-unprovable".to_string(),
                };
                if known.contains(&sig) {
                    t.count("known finding hit", 1);
                }
                t.violation(sig, format!("commit accepted the vector but the committed witness does not satisfy the circuit ({}); reference says failing clauses {:?}", why, reference.as_ref().map(|r| r.failing.clone())), case);
                return;
            }
            t.traces_validated += 1;
            if !provable {
                t.infra("a batch the reference predicate rejects was proved by the real prover (reference and circuit disagree)".to_string());
            }
            // full recursive circuit output == reference aggregate on the committed order (ties the
            // wrapper-only circuit of C06..C09 to the real recursive circuit)
            if let (Some(order), Some(pre), Ok(Ok(p))) = (order, preimgs, &proved) {
                let stmts: Vec<LeafStmt> = order.iter().map(|x| LeafStmt::from_pis(x)).collect();
                let r = pbatch::reference(&stmts, &pre);
                if r.output != pis_of(p) {
                    t.violation("C14:private:proof-output-differs-from-specified-aggregate", "the proof's public inputs differ from the specified aggregate of the committed slots".to_string(), case);
                } else {
                    t.count("full recursive proofs whose output equals the reference aggregate", 1);
                }
            }
        }
    }
}

// public batch

pub struct PubFixture {
    pub n: usize,
    pub inner: Pt,
    pub template: Inner,
    pub template_proof: Proof,
    verifiers: std::cell::RefCell<BTreeMap<usize, VerifierCircuitData<F, C, D>>>,
}

impl PubFixture {
    pub fn new(n: usize, rng: &mut Rng) -> Result<PubFixture, String> {
        let inner = Pt::new(21 * n + 8);
        // genuine all-dummy private batch: zero header hash, zero slots, arbitrary sorted nullifiers
        let mut pis = vec![2 * n as u64, 0, 10, 0, 0, 0, 0, 0];
        pis.extend(std::iter::repeat(0).take(10 * n));
        let mut nulls: Vec<D4> = (0..n).map(|_| [rng.felt(), rng.felt(), rng.felt(), rng.felt()]).collect();
        nulls.sort();
        for nl in nulls {
            pis.extend_from_slice(&nl);
        }
        pis.resize(21 * n + 8, 0);
        let template = Inner { n, pis };
        let template_proof = inner.prove(&template.pis)?;
        Ok(PubFixture { n, inner, template, template_proof, verifiers: Default::default() })
    }
    pub fn prover(&self, m: usize) -> Result<PublicBatchProver, String> {
        PublicBatchProver::new(wormhole_public_batch_circuit_config(), self.inner.data.common.clone(), &self.inner.data.verifier_only, m, self.n, self.template_proof.clone()).map_err(|e| e.to_string())
    }
    pub fn verify(&self, m: usize, proof: &Proof) -> Result<(), String> {
        let mut mm = self.verifiers.borrow_mut();
        if !mm.contains_key(&m) {
            let vd = PublicBatchCircuit::new(wormhole_public_batch_circuit_config(), self.inner.data.common.clone(), &self.inner.data.verifier_only, m, self.n).map_err(|e| e.to_string())?.build_verifier();
            mm.insert(m, vd);
        }
        mm[&m].verify(proof.clone()).map_err(|e| e.to_string())
    }
}

fn c14_public_case(fx: &PubFixture, m: usize, rng: &mut Rng, t: &mut Tally) {
    t.eval();
    let k = match rng.below(12) {
        0 => 0,
        1 => m + 1,
        _ => 1 + rng.usize(m),
    };
    let (addr, mut inners) = if k == 0 { ([1, 2, 3, 4], vec![]) } else { pubbatch::gen_inners(rng, k, fx.n) };
    // inner statements must be parseable private-batch outputs: keep header scalars in u32 range
    for i in inners.iter_mut() {
        for idx in [1usize, 2, 7] {
            i.pis[idx] &= 0xFFFF_FFFF;
        }
    }
    let mut tampered: Vec<bool> = inners.iter().map(|_| rng.chance(1, 14)).collect();
    // an inner carrying exactly the padding template's public inputs: genuine copy or invalid proof
    if inners.len() >= 2 && rng.chance(1, 7) {
        let i = rng.usize(inners.len());
        inners[i] = fx.template.clone();
        tampered[i] = rng.chance(2, 3);
        t.class(if tampered[i] { "public|template-statement|invalid-proof" } else { "public|template-statement|genuine-copy" });
    }
    let proofs: Result<Vec<Proof>, String> = inners.iter().zip(tampered.iter()).map(|(i, tm)| if *tm { fx.inner.tampered(&i.pis, rng) } else { fx.inner.prove(&i.pis) }).collect();
    let proofs = match proofs {
        Ok(p) => p,
        Err(e) => {
            t.infra(e);
            return;
        }
    };
    let policy: Option<&'static str> = if inners.is_empty() {
        Some("empty")
    } else if inners.len() > m {
        Some("too-many")
    } else if tampered.iter().any(|x| *x) {
        Some("invalid-proof")
    } else if inners.iter().all(|i| i.is_dummy()) {
        Some("no-real-proof")
    } else {
        None
    };
    let mut padded = inners.clone();
    while padded.len() < m {
        padded.push(fx.template.clone());
    }
    let reference = if padded.len() == m { Some(pubbatch::reference(&addr, &padded)) } else { None };
    let provable = reference.as_ref().map(|r| r.accept).unwrap_or(false);
    let case = json!({"kind": "c14_public", "m": m, "n": fx.n, "batch": if inners.is_empty() { json!(null) } else { pubbatch::inners_json(&addr, &inners) }, "tampered": tampered});
    let prover = match fx.prover(m) {
        Ok(p) => p,
        Err(e) => {
            t.infra(format!("public prover construction failed: {}", e));
            return;
        }
    };
    let address = BytesDigest::try_from(refm::d4_to_bytes(&addr)).expect("canonical address");
    let committed = catch(|| prover.commit(PublicBatchInputs { proofs, aggregator_address: address }));
    t.class(&format!("public|M={}|policy:{}|{}", m, policy.unwrap_or("pass"), if provable { "provable" } else { "unprovable" }));
    if policy.is_none() {
        t.nontrivial(fnv_u64s(&inners.iter().flat_map(|i| i.pis.clone()).collect::<Vec<_>>()) ^ (m as u64) << 40);
    }
    match committed {
        Err(p) => t.violation("C14:public:commit-panics", format!("PublicBatchProver::commit panicked: {}", p), case),
        Ok(Err(e)) => {
            if policy.is_none() && provable {
                t.violation("C14:public:rejects-provable-batch", format!("commit rejected valid inner proofs passing every documented policy although the padded batch is provable: {}", e), case);
            }
        }
        Ok(Ok(committed)) => {
            if let Some(p) = policy {
                t.violation(format!("C14:public:accepts-{}", p), format!("commit accepted inner proofs failing the documented policy '{}'", p), case);
                return;
            }
            let proved = catch(|| committed.prove());
            let ok = match &proved {
                Ok(Ok(p)) => fx.verify(m, p).is_ok(),
                _ => false,
            };
            if !ok {
                t.violation("C14:public:accepted-but-unprovable", format!("commit accepted the inner proofs but proving failed / the proof does not verify; reference failing clauses {:?}", reference.as_ref().map(|r| r.failing.clone())), case);
                return;
            }
            t.traces_validated += 1;
            if let (Some(r), Ok(Ok(p))) = (&reference, &proved) {
                if r.output != pis_of(p) {
                    t.violation("C14:public:proof-output-differs-from-forwarding", "the public-batch proof's public inputs differ from order-preserving forwarding of the committed inners".to_string(), case);
                } else {
                    t.count("full recursive public proofs whose output equals the reference forwarding", 1);
                }
            }
        }
    }
}

pub fn run_c14(ctx: &Ctx) {
    let n_priv = ctx.tier.pick(112usize, 1_600);
    let n_pub = ctx.tier.pick(64usize, 800);
    ctx.set_rule(&format!(
        "{} vectors of pass-through child proofs for PrivateBatchProver (N in 1..4: length 0..N+1, metadata mixes from the C07 generators incl. dummy-shaped proofs with arbitrary felts, duplicate nullifiers, grouped sums at 2^32-1 / 2^32, non-zero asset with and without padding, tampered proofs) and {} for PublicBatchProver ((M,N) in {{(1,1),(2,1),(2,2),(3,2)}}). Each case builds a fresh prover through its public constructor. \
         Oracle: commit accepts => every documented policy holds AND the real prove() succeeds and the proof verifies under the rebuilt verifier (all accepted commits are proved) AND the proof's public inputs equal the reference aggregate of the committed slots; commit rejects a vector passing every documented policy => the padded batch is unprovable by the reference acceptance predicate. \
         Non-trivial: vector passing all documented policies; distinct by its public inputs.",
        n_priv, n_pub));
    ctx.assume("pass-through child circuits: the provers accept any child verifier data of the right public-input length; real leaf / private-batch proofs are exercised by C05, C16, C17, C18");
    ctx.assume("real slots carry u32 scalars (leaf statements); the reference acceptance predicate is validated against the wrapper circuit by C07");
    let known = crate::util::known_signatures("C14");
    let known = &known;
    let workers = ctx.n_workers();
    ctx.par(workers, |wi, t| {
        let mut rng = Rng::fork(ctx.seed, wi as u64);
        let fx = match PrivFixture::new(&mut rng) {
            Ok(f) => f,
            Err(e) => {
                t.infra(e);
                return;
            }
        };
        for c in 0..n_priv.div_ceil(workers) {
            let n = [1usize, 2, 2, 3, 3, 4][(c + wi) % 6];
            let mut v = gen_supplied(&mut rng, n);
            // a supplied proof carrying exactly the padding template's public inputs: a genuine copy
            // (valid dummy) or an invalid proof hiding behind the template's statement
            if !v.is_empty() && rng.chance(1, 7) {
                let i = rng.usize(v.len());
                let forged = rng.chance(2, 3);
                if v.iter().enumerate().any(|(j, s)| j != i && !s.stmt.is_dummy()) || v.len() == 1 {
                    v[i] = Supplied { stmt: fx.template.clone(), tampered: forged };
                    t.class(if forged { "private|template-statement|invalid-proof" } else { "private|template-statement|genuine-copy" });
                }
            }
            c14_private_case(&fx, n, &v, &mut rng, t, known);
            if c < 1 {
                t.sample(json!({"prover": "private", "case": supplied_json(n, &v)}));
            }
        }
        let shapes = [(1usize, 1usize), (2, 1), (2, 2), (3, 2)];
        let mut fixtures: BTreeMap<usize, PubFixture> = BTreeMap::new();
        for c in 0..n_pub.div_ceil(workers) {
            let (m, n) = shapes[(c + wi) % shapes.len()];
            if !fixtures.contains_key(&n) {
                match PubFixture::new(n, &mut rng) {
                    Ok(f) => {
                        fixtures.insert(n, f);
                    }
                    Err(e) => {
                        t.infra(e);
                        return;
                    }
                }
            }
            c14_public_case(&fixtures[&n], m, &mut rng, t);
        }
    });
}

// =============================================================== C15 =========

fn chi2_threshold(df: usize) -> f64 {
    // upper critical values of chi-square at p = 1e-9 (precomputed; Wilson-Hilferty fallback)
    match df {
        1 => 37.3,
        2 => 41.4,
        5 => 49.9,
        23 => 88.0,
        11 => 66.3,
        _ => {
            let k = df as f64;
            let z = 5.998; // normal quantile for 1e-9
            k * (1.0 - 2.0 / (9.0 * k) + z * (2.0 / (9.0 * k)).sqrt()).powi(3)
        }
    }
}

/// (k, N) configurations: padded batches and *full* batches (k = N: no padding, the shuffle alone).
fn c15_configs(ctx: &Ctx) -> Vec<(usize, usize)> {
    ctx.tier.pick(vec![(1usize, 3usize), (2, 3), (3, 3)], vec![(1, 3), (2, 4), (1, 2), (3, 4), (2, 3), (3, 3), (2, 2), (4, 4)])
}

pub fn run_c15(ctx: &Ctx) {
    let r_commits = ctx.tier.pick(288usize, 3_200);
    ctx.set_rule(&format!(
        "{} commits of PrivateBatchProver over pass-through leaves, each on a freshly built prover, cycling the configurations (k,N) in {:?}, plus public-batch commits (k<M); the committed partial witness is read through a cfg-gated read-only accessor. \
         Oracle: multiset of committed slot public inputs == the k supplied proofs + (N-k) copies of the validated template; all 4N preimage limbs form pairwise distinct preimages within and across all commits of the run, no two preimages of one commit are within 2^16 of each other in any limb, and no limb value recurs in the run (independent fresh draws); public batch: supplied inners in the given order followed by templates; \
         uniformity: chi-square of the observed slot arrangement of the real proofs against uniform (N!/(N-k)! cells) with rejection threshold p < 1e-9, and every arrangement occurs. Non-trivial: commit with N >= 2 (shuffle active; padding too when k < N); distinct by its arrangement and preimages.",
        r_commits, c15_configs(ctx)));
    ctx.assume("the randomness under test is the repo's thread_rng: this check is statistical and not seed-reproducible by nature; the false-alarm rate of the uniformity test is <= 1e-9 per configuration by construction; bias below the test's power at this sample size is invisible");
    let workers = ctx.n_workers();
    let configs: Vec<(usize, usize)> = c15_configs(ctx);
    let arrangements: std::sync::Mutex<BTreeMap<(usize, usize), BTreeMap<Vec<usize>, u64>>> = Default::default();
    let all_preimages: std::sync::Mutex<HashSet<D4>> = Default::default();
    let all_limbs: std::sync::Mutex<HashSet<u64>> = Default::default();
    let dup_preimage = std::sync::atomic::AtomicU64::new(0);
    ctx.par(workers, |wi, t| {
        let mut rng = Rng::fork(ctx.seed, wi as u64);
        let fx = match PrivFixture::new(&mut rng) {
            Ok(f) => f,
            Err(e) => {
                t.infra(e);
                return;
            }
        };
        for c in 0..r_commits.div_ceil(workers) {
            let (k, n) = configs[(c + wi) % configs.len()];
            t.eval();
            // k compatible real leaves with distinct nullifiers, native asset
            let pools = pbatch::make_pools(&mut rng);
            let supplied: Vec<LeafStmt> = (0..k)
                .map(|i| {
                    let nul = [rng.felt(), i as u64 + 1, rng.felt(), rng.felt()];
                    let mut l = pbatch::gen_real(&mut rng, &pools, 0, 0, pools.fees[0] % 10001, nul);
                    l.out1 = rng.below(1 << 20);
                    l.out2 = rng.below(1 << 20);
                    l
                })
                .collect();
            let proofs: Vec<Proof> = match supplied.iter().map(|s| fx.leaf.prove(&s.pis())).collect() {
                Ok(p) => p,
                Err(e) => {
                    t.infra(e);
                    return;
                }
            };
            let prover = match fx.prover(n) {
                Ok(p) => p,
                Err(e) => {
                    t.infra(e);
                    return;
                }
            };
            let Some(targets) = prover.verif_targets() else {
                t.infra("prover has no targets before commit".to_string());
                return;
            };
            let committed = match prover.commit(proofs) {
                Ok(c) => c,
                Err(e) => {
                    t.infra(format!("commit of a compatible batch failed: {}", e));
                    continue;
                }
            };
            let pw = committed.verif_partial_witness();
            let slots: Vec<Vec<u64>> = targets.leaf_proofs.iter().map(|pt| pt.public_inputs.iter().map(|x| pw.try_get_target(*x).map(|f| f.to_canonical_u64()).unwrap_or(u64::MAX)).collect()).collect();
            let pre: Vec<D4> = targets.dummy_nullifier_pre_images.iter().map(|q| [0, 1, 2, 3].map(|j| pw.try_get_target(q[j]).map(|f| f.to_canonical_u64()).unwrap_or(u64::MAX))).collect();
            let case = json!({"kind": "c15", "k": k, "n": n, "committed_slots": slots, "preimages": pre});
            // exact padding
            let mut want: Vec<Vec<u64>> = supplied.iter().map(|s| s.pis().to_vec()).collect();
            for _ in k..n {
                want.push(fx.template.pis().to_vec());
            }
            let mut a = slots.clone();
            a.sort();
            want.sort();
            if a != want {
                t.violation("C15:padding", format!("committed slots are not exactly the {} supplied proofs plus {} copies of the template", k, n - k), case.clone());
            }
            // preimages: set, canonical by construction, distinct within the commit and across commits
            if pre.iter().any(|p| p.contains(&u64::MAX)) || pre.len() != n {
                t.violation("C15:preimage-missing", "a slot has no dummy-nullifier preimage in the committed witness".to_string(), case.clone());
            }
            let mut local: HashSet<D4> = HashSet::new();
            for p in &pre {
                if !local.insert(*p) {
                    t.violation("C15:preimage-reused-in-commit", "two slots of one commit share a dummy-nullifier preimage".to_string(), case.clone());
                }
                if p.iter().filter(|x| **x == 0).count() >= 2 {
                    t.violation("C15:preimage-degenerate", format!("preimage {:?} is not a fresh random digest", p), case.clone());
                }
            }
            // independence: two preimages of one commit never share a limb or sit within 2^16 of each other
            // in any limb position (chance < 2^-47 per pair and limb for independent uniform limbs), and no
            // limb value recurs anywhere in the run (chance ~ 1e-9 over the whole run)
            for (i, p) in pre.iter().enumerate() {
                for q in pre.iter().skip(i + 1) {
                    for j in 0..4 {
                        let d = if p[j] >= q[j] { p[j] - q[j] } else { q[j] - p[j] };
                        let d = d.min(crate::refm::P.saturating_sub(d));
                        if d < (1 << 16) {
                            t.violation("C15:preimages-correlated", format!("preimages {:?} and {:?} of one commit differ by {} in limb {}: not independent draws", p, q, d, j), case.clone());
                        }
                    }
                }
            }
            {
                let mut g = all_limbs.lock().unwrap();
                for p in &pre {
                    for l in p {
                        if !g.insert(*l) {
                            t.violation("C15:preimage-limb-recurs", format!("limb value {} occurs in two dummy-nullifier preimages of this run", l), case.clone());
                        }
                    }
                }
            }
            {
                let mut g = all_preimages.lock().unwrap();
                for p in &pre {
                    if !g.insert(*p) {
                        dup_preimage.fetch_add(1, std::sync::atomic::Ordering::Relaxed);
                        t.violation("C15:preimage-reused-across-commits", "a dummy-nullifier preimage was used in two different commits".to_string(), case.clone());
                    }
                }
            }
            // arrangement of the real proofs
            let arr: Vec<usize> = supplied.iter().map(|s| slots.iter().position(|x| x == &s.pis().to_vec()).unwrap_or(usize::MAX)).collect();
            *arrangements.lock().unwrap().entry((k, n)).or_default().entry(arr.clone()).or_insert(0) += 1;
            t.class(&format!("private|k={},N={}", k, n));
            t.nontrivial(fnv_u64s(&pre.iter().flatten().copied().collect::<Vec<_>>()));
            if c < 1 {
                t.sample(json!({"k": k, "n": n, "arrangement_of_real_proofs": arr, "preimages": pre}));
            }
        }
        // public batch: order preserved, templates appended (fewer cases: same code path each time)
        let pf = match PubFixture::new(1, &mut rng) {
            Ok(f) => f,
            Err(e) => {
                t.infra(e);
                return;
            }
        };
        for c in 0..ctx.tier.pick(2usize, 12) {
            let m = 2 + (c + wi) % 3;
            let k = 1 + rng.usize(m); // 1..=M (full public batches too)
            t.eval();
            let pools = pubbatch::make_pools(&mut rng);
            let inners: Vec<Inner> = (0..k)
                .map(|_| {
                    let mut i = pubbatch::gen_real_inner(&mut rng, &pools, 1, 0, 0, 0);
                    i.pis[7] = rng.u32() as u64;
                    i
                })
                .collect();
            let proofs: Vec<Proof> = match inners.iter().map(|i| pf.inner.prove(&i.pis)).collect() {
                Ok(p) => p,
                Err(e) => {
                    t.infra(e);
                    return;
                }
            };
            let prover = match pf.prover(m) {
                Ok(p) => p,
                Err(e) => {
                    t.infra(e);
                    return;
                }
            };
            let Some(targets) = prover.verif_targets() else { return };
            let committed = match prover.commit(PublicBatchInputs { proofs, aggregator_address: BytesDigest::try_from([7u8; 32]).unwrap() }) {
                Ok(c) => c,
                Err(e) => {
                    t.infra(format!("public commit of a compatible batch failed: {}", e));
                    continue;
                }
            };
            let pw = committed.verif_partial_witness();
            let slots: Vec<Vec<u64>> = targets.private_batch_proofs.iter().map(|pt| pt.public_inputs.iter().map(|x| pw.try_get_target(*x).map(|f| f.to_canonical_u64()).unwrap_or(u64::MAX)).collect()).collect();
            let mut want: Vec<Vec<u64>> = inners.iter().map(|i| i.pis.clone()).collect();
            for _ in k..m {
                want.push(pf.template.pis.clone());
            }
            if slots != want {
                t.violation("C15:public-order", format!("committed public batch (k={}, M={}) is not the supplied inners in the given order followed by templates", k, m), json!({"kind": "c15_public", "k": k, "m": m}));
            }
            t.class(&format!("public|k={},M={}", k, m));
            t.nontrivial(fnv_u64s(&slots.concat()));
        }
    });
    // uniformity
    let arr = arrangements.lock().unwrap();
    let mut summary = vec![];
    let mut t = Tally::new();
    for ((k, n), counts) in arr.iter() {
        let cells: usize = (0..*k).map(|i| n - i).product();
        let total: u64 = counts.values().sum();
        let expected = total as f64 / cells as f64;
        let mut chi2: f64 = counts.values().map(|c| (*c as f64 - expected).powi(2) / expected).sum();
        chi2 += (cells - counts.len()) as f64 * expected; // empty cells
        let thr = chi2_threshold(cells - 1);
        summary.push(json!({"k": k, "n": n, "commits": total, "cells": cells, "cells_observed": counts.len(), "chi2": chi2, "threshold_p1e-9": thr, "counts": counts.iter().map(|(a, c)| json!([a, c])).collect::<Vec<_>>()}));
        let case = json!({"kind": "c15_uniformity", "k": k, "n": n, "counts": counts.iter().map(|(a, c)| json!([a, c])).collect::<Vec<_>>()});
        if counts.keys().any(|a| a.contains(&usize::MAX)) {
            t.violation("C15:padding", "a supplied proof is missing from the committed slots".to_string(), case.clone());
        }
        if total as f64 >= 5.0 * cells as f64 {
            if chi2 > thr {
                t.violation("C15:shuffle-not-uniform", format!("slot arrangement of the real proofs (k={}, N={}) deviates from uniform: chi2={:.1} over {} cells from {} commits (threshold {:.1} at p=1e-9)", k, n, chi2, cells, total, thr), case.clone());
            }
            // every arrangement occurs (only asserted when the miss probability is negligible)
            let miss_prob = cells as f64 * (1.0 - 1.0 / cells as f64).powf(total as f64);
            if counts.len() < cells && miss_prob < 1e-9 {
                t.violation("C15:arrangement-never-occurs", format!("only {} of {} arrangements occurred in {} commits", counts.len(), cells, total), case);
            }
        }
    }
    ctx.extra("uniformity", json!(summary));
    ctx.merge(t);
    let _ = P;
}

// ============================================================== C16 (pass-through part)

/// Template deviations at PrivateBatchProver::new / PublicBatchProver::new.
pub fn run_c16_passthrough(ctx: &Ctx, t_out: &mut Tally, wi: usize, workers: usize, rng: &mut Rng) {
    let leaf = Pt::new(21);
    // --- leaf templates ---
    let listed: [(usize, &str); 14] = [(0, "asset"), (1, "out1"), (2, "out2"), (8, "exit1"), (9, "exit1"), (10, "exit1"), (11, "exit1"), (12, "exit2"), (13, "exit2"), (14, "exit2"), (15, "exit2"), (16, "block_hash"), (17, "block_hash"), (19, "block_hash")];
    let unlisted: [(usize, &str); 4] = [(3, "fee"), (4, "nullifier"), (7, "nullifier"), (20, "block_number")];
    let values = [1u64, 0xFFFF_FFFF, P - 1];
    let mut jobs: Vec<(Vec<(usize, u64)>, bool, String)> = vec![]; // (deviations, tampered, label)
    jobs.push((vec![], false, "genuine(control)".into()));
    for (pos, name) in listed.iter() {
        for v in values {
            // scalars must stay parseable as u32 for the sentinel check to be the deciding reason
            let val = if *pos <= 2 && v > 0xFFFF_FFFF { 0xFFFF_FFFE } else { v };
            jobs.push((vec![(*pos, val)], false, format!("listed:{}[{}]={}", name, pos, val)));
        }
    }
    for (pos, name) in unlisted.iter() {
        jobs.push((vec![(*pos, 1)], false, format!("unlisted:{}[{}]=1", name, pos)));
    }
    for _ in 0..ctx.tier.pick(6, 60) {
        let k = 2 + rng.usize(3);
        let devs: Vec<(usize, u64)> = (0..k).map(|_| { let (p, _) = *rng.pick(&listed); (p, 1 + rng.below(1000)) }).collect();
        jobs.push((devs, false, "listed:multi".into()));
    }
    jobs.push((vec![], true, "tampered-zero-sentinel".into()));
    // deviations that cancel under arithmetic shortcuts (wrapping u32 sums, limb sums, squared sums)
    for (a, b) in [(1u64 << 31, 1u64 << 31), (1, 0xFFFF_FFFF), (0xFFFF_FFFF, 1), (0xFFFF_FFFE, 2)] {
        jobs.push((vec![(1, a), (2, b)], false, format!("listed:outputs-sum-2^32[{}+{}]", a, b)));
    }
    for start in [8usize, 12, 16] {
        for _ in 0..ctx.tier.pick(3, 12) {
            let d = refm::structured_delta(rng);
            let devs: Vec<(usize, u64)> = (0..4).filter(|j| d[*j] != 0).map(|j| (start + j, d[j])).collect();
            jobs.push((devs, false, format!("listed:structured-{}", match start { 8 => "exit1", 12 => "exit2", _ => "block_hash" })));
        }
    }
    for (ji, (devs, tampered, label)) in jobs.iter().enumerate() {
        if ji % workers != wi {
            continue;
        }
        let mut stmt = template_stmt(rng).pis().to_vec();
        for (p, v) in devs {
            stmt[*p] = *v;
        }
        let proof = if *tampered { leaf.tampered(&stmt, rng) } else { leaf.prove(&stmt) };
        let Ok(proof) = proof else {
            t_out.infra("child proving failed".to_string());
            continue;
        };
        t_out.eval();
        let r = catch(|| PrivateBatchProver::new(wormhole_private_batch_circuit_config(), leaf.data.common.clone(), &leaf.data.verifier_only, 1, proof).is_ok());
        let case = json!({"kind": "c16_pt_leaf", "template_pis": stmt, "tampered": tampered, "label": label});
        if ji < 2 * workers {
            t_out.sample(json!({"entry_point": "PrivateBatchProver::new (pass-through leaf)", "template": label, "template_public_inputs": stmt}));
        }
        let must_reject = *tampered || devs.iter().any(|(p, _)| listed.iter().any(|(lp, _)| lp == p)) ;
        t_out.class(&format!("PrivateBatchProver::new|{}", label.split('[').next().unwrap_or(label)));
        match r {
            Err(p) => t_out.violation("C16:PrivateBatchProver::new:panic", format!("constructor panicked on template {}: {}", label, p), case),
            Ok(accepted) => {
                if accepted && must_reject {
                    t_out.violation(format!("C16:PrivateBatchProver::new:accepts:{}", label.split(|c| c == '[' || c == '=').next().unwrap_or("")), format!("PrivateBatchProver::new accepts a leaf padding template deviating from the full dummy sentinel ({})", label), case);
                } else if !accepted && label.starts_with("genuine") {
                    t_out.infra("genuine leaf template rejected by PrivateBatchProver::new (control)".to_string());
                } else if !accepted && label.starts_with("unlisted") {
                    t_out.count("templates rejected for a deviation in a field the property does not list (recorded, not flagged)", 1);
                }
            }
        }
        if devs.len() == 1 && must_reject {
            t_out.nontrivial(fnv_u64s(&[1, devs[0].0 as u64, devs[0].1]));
        }
    }
    // --- private-batch templates at PublicBatchProver::new (n = 1, 2) ---
    for n in [1usize, 2] {
        let inner = Pt::new(21 * n + 8);
        let base: Vec<u64> = {
            let mut v = vec![2 * n as u64, 0, 10, 0, 0, 0, 0, 0];
            v.extend(std::iter::repeat(0).take(10 * n));
            for k in 0..n {
                v.extend_from_slice(&[k as u64 + 1, 5, 6, 7]);
            }
            v.resize(21 * n + 8, 0);
            v
        };
        let mut jobs: Vec<(Vec<(usize, u64)>, bool, String)> = vec![(vec![], false, "genuine(control)".into()), (vec![], true, "tampered-zero-sentinel".into())];
        for limb in 0..4 {
            for v in [1u64, P - 1] {
                jobs.push((vec![(3 + limb, v)], false, format!("listed:block_hash[{}]", limb)));
            }
        }
        for s in 0..2 * n {
            jobs.push((vec![(8 + 5 * s, 1)], false, format!("listed:slot{}-amount", s)));
            jobs.push((vec![(8 + 5 * s, 0xFFFF_FFFF)], false, format!("listed:slot{}-amount", s)));
            for limb in 0..4 {
                jobs.push((vec![(9 + 5 * s + limb, if limb % 2 == 0 { 1 } else { P - 1 })], false, format!("listed:slot{}-account", s)));
            }
        }
        jobs.push((vec![(1, 5)], false, "unlisted:asset".into()));
        jobs.push((vec![(7, 9)], false, "unlisted:block_number".into()));
        // cancelling deviations
        jobs.push((vec![(8, 1 << 31), (13, 1 << 31)], false, "listed:slot-amounts-sum-2^32".into()));
        jobs.push((vec![(8, 1), (13, 0xFFFF_FFFF)], false, "listed:slot-amounts-sum-2^32".into()));
        for _ in 0..3 {
            let d = refm::structured_delta(rng);
            let devs: Vec<(usize, u64)> = (0..4).filter(|j| d[*j] != 0).map(|j| (3 + j, d[j])).collect();
            jobs.push((devs, false, "listed:structured-block_hash".into()));
            let d = refm::structured_delta(rng);
            let devs: Vec<(usize, u64)> = (0..4).filter(|j| d[*j] != 0).map(|j| (9 + j, d[j])).collect();
            jobs.push((devs, false, "listed:structured-slot0-account".into()));
        }
        for (ji, (devs, tampered, label)) in jobs.iter().enumerate() {
            if (ji + n) % workers != wi {
                continue;
            }
            let mut pis = base.clone();
            for (p, v) in devs {
                pis[*p] = *v;
            }
            let proof = if *tampered { inner.tampered(&pis, rng) } else { inner.prove(&pis) };
            let Ok(proof) = proof else { continue };
            t_out.eval();
            let r = catch(|| PublicBatchProver::new(wormhole_public_batch_circuit_config(), inner.data.common.clone(), &inner.data.verifier_only, 1, n, proof).is_ok());
            let case = json!({"kind": "c16_pt_batch", "n": n, "template_pis": pis, "tampered": tampered, "label": label});
            let must_reject = *tampered || label.starts_with("listed");
            t_out.class(&format!("PublicBatchProver::new|{}", label.split('[').next().unwrap_or(label).trim_end_matches(char::is_numeric)));
            match r {
                Err(p) => t_out.violation("C16:PublicBatchProver::new:panic", format!("constructor panicked on template {}: {}", label, p), case),
                Ok(accepted) => {
                    if accepted && must_reject {
                        t_out.violation(format!("C16:PublicBatchProver::new:accepts:{}", label.split('[').next().unwrap_or(label)), format!("PublicBatchProver::new accepts a private-batch padding template failing a sentinel condition ({})", label), case);
                    } else if !accepted && label.starts_with("genuine") {
                        t_out.infra("genuine private-batch template rejected by PublicBatchProver::new (control)".to_string());
                    }
                }
            }
            if devs.len() == 1 && must_reject {
                t_out.nontrivial(fnv_u64s(&[2, n as u64, devs[0].0 as u64, devs[0].1]));
            }
        }
    }
}

pub fn replay(case: &Value) -> Result<bool, String> {
    let mut t = Tally::new();
    let mut rng = Rng::new(3);
    match case["kind"].as_str().unwrap_or("") {
        "c14_private" => {
            let n = case["case"]["n"].as_u64().ok_or("n")? as usize;
            let v: Vec<Supplied> = case["case"]["supplied"].as_array().ok_or("supplied")?.iter().map(|s| Supplied { stmt: LeafStmt::from_pis(&s["pis"].as_array().unwrap().iter().map(|x| x.as_u64().unwrap_or(0)).collect::<Vec<_>>()), tampered: s["tampered"].as_bool().unwrap_or(false) }).collect();
            let fx = PrivFixture::new(&mut rng)?;
            c14_private_case(&fx, n, &v, &mut rng, &mut t, &[]);
        }
        k => return Err(format!("replay of {} is regenerated from the recorded seed", k)),
    }
    for v in &t.violations {
        eprintln!("replay: [{}] {}", v.signature, v.description);
    }
    Ok(!t.violations.is_empty())
}
