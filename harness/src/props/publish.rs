//! C23 — artifact publication is atomic under failures and crashes (E5).
//!
//! The whole schedule space (initial state x action per rename call x crash points
//! inside directory removals) is enumerated. Every schedule runs in a child process
//! of the harness so that a crash is a real process death (abort), and the parent
//! inspects the directory tree afterwards.

use serde_json::{json, Value};
use std::collections::BTreeMap;
use std::path::{Path, PathBuf};
use std::sync::atomic::{AtomicI64, Ordering};

use crate::util::rng::Rng;
use crate::util::{fnv_str, Ctx, Tally};

// ------------------------------------------------------------ unlink interposition

/// Number of unlinkat calls after which the (child) process aborts; negative = off.
static UNLINK_CRASH_AFTER: AtomicI64 = AtomicI64::new(-1);
static UNLINK_CALLS: AtomicI64 = AtomicI64::new(0);

/// std's remove_dir_all removes entries through `unlinkat`; the harness binary
/// defines the symbol so that a child can die in the middle of a directory removal.
#[no_mangle]
pub unsafe extern "C" fn unlinkat(dirfd: libc::c_int, path: *const libc::c_char, flags: libc::c_int) -> libc::c_int {
    let limit = UNLINK_CRASH_AFTER.load(Ordering::Relaxed);
    let n = UNLINK_CALLS.fetch_add(1, Ordering::Relaxed);
    if limit >= 0 && n >= limit {
        libc::abort();
    }
    libc::syscall(libc::SYS_unlinkat, dirfd, path, flags) as libc::c_int
}

// ------------------------------------------------------------ open64 interposition

/// Index of the file-creating open (under OPEN_PREFIX) that fails with EIO / aborts; negative = off.
static OPEN_FAULT_AT: AtomicI64 = AtomicI64::new(-1);
static OPEN_FAULT_ABORTS: AtomicI64 = AtomicI64::new(0);
static OPEN_CREATES: AtomicI64 = AtomicI64::new(0);
static OPEN_PREFIX: std::sync::OnceLock<Vec<u8>> = std::sync::OnceLock::new();

/// std::fs opens files through `open64(path, flags, mode)`; the harness binary defines the
/// symbol (x86_64 SysV: the optional mode argument arrives in the third integer register) so
/// that a child can make the k-th artifact write of a generation fail like a full disk would.
#[no_mangle]
pub unsafe extern "C" fn open64(path: *const libc::c_char, flags: libc::c_int, mode: libc::c_int) -> libc::c_int {
    if flags & libc::O_CREAT != 0 {
        if let Some(prefix) = OPEN_PREFIX.get() {
            let p = std::ffi::CStr::from_ptr(path).to_bytes();
            if p.starts_with(prefix) {
                let n = OPEN_CREATES.fetch_add(1, Ordering::Relaxed);
                if n == OPEN_FAULT_AT.load(Ordering::Relaxed) {
                    if OPEN_FAULT_ABORTS.load(Ordering::Relaxed) != 0 {
                        libc::abort();
                    }
                    *libc::__errno_location() = libc::EIO;
                    return -1;
                }
            }
        }
    }
    libc::syscall(libc::SYS_openat, libc::AT_FDCWD, path, flags, mode) as libc::c_int
}

// ------------------------------------------------------------------------ trees

type Tree = BTreeMap<String, Vec<u8>>; // relative path -> bytes ("<dir>" marker for empty dirs)

fn read_tree(root: &Path) -> Option<Tree> {
    fn rec(base: &Path, p: &Path, out: &mut Tree) -> bool {
        let Ok(rd) = std::fs::read_dir(p) else { return false };
        let mut any = false;
        for e in rd.flatten() {
            any = true;
            let path = e.path();
            let rel = path.strip_prefix(base).unwrap().to_string_lossy().to_string();
            if path.is_dir() {
                out.insert(format!("{}/", rel), vec![]);
                if !rec(base, &path, out) {
                    return false;
                }
            } else {
                match std::fs::read(&path) {
                    Ok(b) => {
                        out.insert(rel, b);
                    }
                    Err(_) => return false,
                }
            }
        }
        let _ = any;
        true
    }
    if !root.is_dir() {
        return None;
    }
    let mut t = Tree::new();
    if rec(root, root, &mut t) {
        Some(t)
    } else {
        None
    }
}

fn write_tree(root: &Path, t: &Tree) {
    std::fs::create_dir_all(root).unwrap();
    for (rel, bytes) in t {
        let p = root.join(rel);
        if rel.ends_with('/') {
            std::fs::create_dir_all(&p).unwrap();
        } else {
            if let Some(par) = p.parent() {
                std::fs::create_dir_all(par).unwrap();
            }
            std::fs::write(&p, bytes).unwrap();
        }
    }
}

fn gen_tree(rng: &mut Rng, tag: &str) -> Tree {
    let mut t = Tree::new();
    let names = ["common.bin", "verifier.bin", "dummy_proof.bin", "private_batch_common.bin", "private_batch_verifier.bin", "config.json", "public_batch_common.bin"];
    let k = 1 + rng.usize(names.len());
    for name in names.iter().take(k) {
        let len = rng.usize(200);
        let mut b = rng.bytes(len);
        b.extend_from_slice(tag.as_bytes());
        t.insert(name.to_string(), b);
    }
    if rng.chance(1, 3) {
        t.insert("nested/".to_string(), vec![]);
        t.insert("nested/inner.bin".to_string(), rng.bytes(17));
    }
    t
}

/// A set with exactly the names and per-file lengths of `prev` and different contents (two
/// generations of one circuit shape look like this: same files, same sizes, other bytes).
fn same_shape_tree(rng: &mut Rng, prev: &Tree) -> Tree {
    let mut t = Tree::new();
    for (name, bytes) in prev.iter() {
        let mut b = rng.bytes(bytes.len());
        if !b.is_empty() && b == *bytes {
            b[0] ^= 0x5a;
        }
        t.insert(name.clone(), b);
    }
    t
}

/// Every directory under `parent` (one level) whose tree equals `want`.
fn find_copy(parent: &Path, want: &Tree) -> Vec<PathBuf> {
    let mut v = vec![];
    if let Ok(rd) = std::fs::read_dir(parent) {
        for e in rd.flatten() {
            if e.path().is_dir() && read_tree(&e.path()).as_ref() == Some(want) {
                v.push(e.path());
            }
        }
    }
    v
}

// -------------------------------------------------------------------- schedules

#[derive(Clone, Copy, Debug, PartialEq, Eq)]
pub enum Act {
    Ok,
    Fail,
    CrashBefore,
    CrashAfter,
}

impl Act {
    fn code(self) -> char {
        match self {
            Act::Ok => 'o',
            Act::Fail => 'f',
            Act::CrashBefore => 'b',
            Act::CrashAfter => 'a',
        }
    }
    fn from(c: char) -> Act {
        match c {
            'f' => Act::Fail,
            'b' => Act::CrashBefore,
            'a' => Act::CrashAfter,
            _ => Act::Ok,
        }
    }
}

#[derive(Clone, Copy, Debug, PartialEq, Eq)]
pub enum Init {
    None,
    Dir,
    File,
}

/// Child: run commit_staging_dir_impl with the scheduled rename actions.
/// Prints "RET ok|err consumed=<n>"; a crash action aborts the process.
pub fn c23_child(sandbox: &str, acts: &str, unlink_crash: i64) -> ! {
    use circuit_builder::verif_hooks::commit_staging_dir_impl;
    let sb = PathBuf::from(sandbox);
    let staging = sb.join(".out.staging-1-00000000deadbeef");
    let output = sb.join("out");
    let acts: Vec<Act> = acts.chars().map(Act::from).collect();
    let idx = std::cell::Cell::new(0usize);
    UNLINK_CALLS.store(0, Ordering::Relaxed);
    if unlink_crash >= 0 {
        UNLINK_CRASH_AFTER.store(unlink_crash, Ordering::Relaxed);
    }
    let r = commit_staging_dir_impl(&staging, &output, |src, dst| {
        let i = idx.get();
        idx.set(i + 1);
        match acts.get(i).copied().unwrap_or(Act::Ok) {
            Act::Ok => std::fs::rename(src, dst),
            Act::Fail => Err(std::io::Error::new(std::io::ErrorKind::Other, "injected rename failure")),
            Act::CrashBefore => std::process::abort(),
            Act::CrashAfter => {
                let _ = std::fs::rename(src, dst);
                std::process::abort()
            }
        }
    });
    UNLINK_CRASH_AFTER.store(-1, Ordering::Relaxed);
    println!("RET {} consumed={} unlinks={}", if r.is_ok() { "ok" } else { "err" }, idx.get(), UNLINK_CALLS.load(Ordering::Relaxed));
    std::process::exit(0);
}

/// Child: run the real generation with a stage fault armed.
pub fn c23_gen_child(sandbox: &str, stage: u32, abort: bool) -> ! {
    use circuit_builder::verif_hooks::{arm_stage_fault, StageFault};
    let sb = PathBuf::from(sandbox);
    let output = sb.join("out");
    unsafe {
        let null = libc::open(b"/dev/null\0".as_ptr() as *const libc::c_char, libc::O_WRONLY);
        let saved = libc::dup(1);
        libc::dup2(null, 1);
        libc::close(null);
        if stage < 100 {
            arm_stage_fault(Some((stage, if abort { StageFault::Abort } else { StageFault::Fail })));
        }
        // stage >= 1000: the (stage-1000)-th file creation under the sandbox fails (or the process
        // dies there); stage == 999: count file creations only
        let _ = OPEN_PREFIX.set(sandbox.as_bytes().to_vec());
        OPEN_CREATES.store(0, Ordering::Relaxed);
        if stage >= 1000 {
            OPEN_FAULT_ABORTS.store(abort as i64, Ordering::Relaxed);
            OPEN_FAULT_AT.store((stage - 1000) as i64, Ordering::Relaxed);
        }
        let r = circuit_builder::generate_all_circuit_binaries(&output, false, 1, None);
        libc::dup2(saved, 1);
        libc::close(saved);
        OPEN_FAULT_AT.store(-1, Ordering::Relaxed);
        println!("RET {} consumed=0 unlinks={}", if r.is_ok() { "ok" } else { "err" }, OPEN_CREATES.load(Ordering::Relaxed));
    }
    std::process::exit(0);
}

struct ChildResult {
    crashed: bool,
    ret_ok: Option<bool>,
    consumed: usize,
    unlinks: i64,
}

fn spawn(args: &[String]) -> Result<ChildResult, String> {
    let exe = std::env::current_exe().map_err(|e| e.to_string())?;
    let out = std::process::Command::new(exe).args(args).stderr(std::process::Stdio::null()).output().map_err(|e| e.to_string())?;
    let so = String::from_utf8_lossy(&out.stdout).to_string();
    let line = so.lines().find(|l| l.starts_with("RET "));
    match line {
        None => Ok(ChildResult { crashed: true, ret_ok: None, consumed: 0, unlinks: 0 }),
        Some(l) => {
            let mut consumed = 0;
            let mut unlinks = 0;
            for tok in l.split_whitespace() {
                if let Some(v) = tok.strip_prefix("consumed=") {
                    consumed = v.parse().unwrap_or(0);
                }
                if let Some(v) = tok.strip_prefix("unlinks=") {
                    unlinks = v.parse().unwrap_or(0);
                }
            }
            Ok(ChildResult { crashed: false, ret_ok: Some(l.contains("RET ok")), consumed, unlinks })
        }
    }
}

fn setup(sb: &Path, init: Init, prev: &Tree, new: &Tree) {
    let _ = std::fs::remove_dir_all(sb);
    std::fs::create_dir_all(sb).unwrap();
    match init {
        Init::None => {}
        Init::Dir => write_tree(&sb.join("out"), prev),
        Init::File => std::fs::write(sb.join("out"), b"i am a file, not an artifact directory").unwrap(),
    }
    write_tree(&sb.join(".out.staging-1-00000000deadbeef"), new);
}

/// The state predicate of C23 after a schedule; returns violations.
fn judge_state(sb: &Path, init: Init, prev: &Tree, new: &Tree, res: &ChildResult) -> Vec<(String, String)> {
    let mut v = vec![];
    let out = sb.join("out");
    let at_out = read_tree(&out);
    let out_is_file = out.is_file();
    let new_live = at_out.as_ref() == Some(new);
    let prev_live = match init {
        Init::Dir => at_out.as_ref() == Some(prev),
        Init::File => out_is_file && std::fs::read(&out).map(|b| b == b"i am a file, not an artifact directory").unwrap_or(false),
        Init::None => !out.exists(),
    };
    // P1: output is the complete previous state or the complete new set, never a mix
    let absent = !out.exists();
    if !(new_live || prev_live || absent) {
        v.push(("C23:mixed-output".to_string(), format!("output path holds neither the complete previous set nor the complete new set ({} entries found)", at_out.as_ref().map(|t| t.len()).unwrap_or(0))));
    }
    // P2: previous set no longer at the output => new set there, or both copies survive on disk
    if init == Init::Dir && !prev_live && !new_live {
        let prev_copies = find_copy(sb, prev);
        let new_copies = find_copy(sb, new);
        if prev_copies.is_empty() || new_copies.is_empty() {
            v.push(("C23:copy-lost".to_string(), format!("previous set is not at the output path and the new set is not live, but intact copies on disk: previous={} new={}", prev_copies.len(), new_copies.len())));
        }
    }
    if init == Init::None && !new_live {
        // nothing was published: the built artifacts must not have been destroyed unless the call
        // reported the failure *and* chose to discard them; the statement requires only the output
        // state here (previous = absent), checked by P1.
    }
    // P3: success is reported iff the new set is live (schedules that return)
    if let Some(ok) = res.ret_ok {
        if ok != new_live {
            v.push((
                if ok { "C23:reports-success-without-publishing".to_string() } else { "C23:reports-failure-after-publishing".to_string() },
                format!("publish returned {} but new set live at the output path = {}", if ok { "Ok" } else { "Err" }, new_live),
            ));
        }
    }
    v
}

fn all_schedules() -> Vec<String> {
    // action strings of length <= 3; a crash ends the schedule
    let acts = [Act::Ok, Act::Fail, Act::CrashBefore, Act::CrashAfter];
    let mut out = vec![];
    fn rec(cur: &mut Vec<Act>, acts: &[Act; 4], out: &mut Vec<String>) {
        if cur.len() == 3 {
            out.push(cur.iter().map(|a| a.code()).collect());
            return;
        }
        for a in acts {
            cur.push(*a);
            if matches!(a, Act::CrashBefore | Act::CrashAfter) {
                out.push(cur.iter().map(|a| a.code()).collect());
            } else {
                rec(cur, acts, out);
            }
            cur.pop();
        }
    }
    rec(&mut vec![], &acts, &mut out);
    out
}

/// Directories a failed generation left next to the output path. The sandbox holds nothing but `out`,
/// so any other directory is a staging (or backup) directory by role, whatever it is called.
fn leftover_dirs(sb: &std::path::Path) -> Vec<String> {
    std::fs::read_dir(sb)
        .map(|rd| rd.flatten().filter(|e| e.path().is_dir() && e.file_name() != "out").map(|e| e.file_name().to_string_lossy().to_string()).collect())
        .unwrap_or_default()
}

pub fn run(ctx: &Ctx) {
    ctx.set_level("fault_enumeration");
    let rounds = ctx.tier.pick(3usize, 40);
    let thorough = ctx.tier == crate::util::Tier::Thorough;
    ctx.set_rule(&format!(
        "initial state in {{no output, output directory with generated contents, output path is a file}} x for each of the up to three rename calls of the publish routine an action in {{ok, fail (error, nothing moved), crash-before, crash-after}} (a crash ends the schedule; all {} action strings, unused suffixes ignored) x {} rounds of generated directory contents; \
         plus, for every returning schedule, a crash (abort) after k unlinkat calls for every k below the number the schedule performs (directory removals cut short); plus generation-stage faults (failure and abort injected at stage {} of the real generate_all_circuit_binaries with (N=1, no public batch)) and generation write faults: the k-th file creation under the output's parent fails with EIO, or the process dies there, for every k a clean run performs (open64 defined by the harness binary). \
         Every schedule runs in a child process (real process death). Oracle on the directory tree afterwards: output path is absent, byte-identical previous set or byte-identical new set; previous set gone from the output => new set live or both sets intact elsewhere under the parent; returned Ok <=> new set live; failed generation => output untouched and no .staging-* entry. \
         Non-trivial: schedule with at least one fault; distinct by (initial state, consumed action prefix, unlink crash point).",
        all_schedules().len(), rounds, if thorough { "0..3" } else { "0..1" }));
    ctx.assume("faults are at rename/unlink granularity on one local filesystem: a rename either happens or fails; power-loss reordering is out of scope");
    let schedules = all_schedules();
    let base = std::env::temp_dir().join(format!("qpv-c23-{}", std::process::id()));
    let _ = std::fs::create_dir_all(&base);
    let base_ref = &base;
    let schedules = &schedules;
    let workers = ctx.n_workers();
    ctx.par(workers, |wi, t| {
        let mut rng = Rng::fork(ctx.seed, wi as u64);
        let sb = base_ref.join(format!("w{}", wi));
        let mut job = 0usize;
        for round in 0..rounds {
            for init in [Init::None, Init::Dir, Init::File] {
                for sched in schedules.iter() {
                    job += 1;
                    if job % workers != wi {
                        continue;
                    }
                    let prev = gen_tree(&mut rng, "PREV");
                    let same_shape = rng.chance(1, 3);
                    let new = if same_shape { same_shape_tree(&mut rng, &prev) } else { gen_tree(&mut rng, "NEW!") };
                    if same_shape {
                        t.class("new set has the names and lengths of the previous set");
                    }
                    setup(&sb, init, &prev, &new);
                    let res = match spawn(&["c23-child".into(), sb.to_string_lossy().to_string(), sched.clone(), "-1".into()]) {
                        Ok(r) => r,
                        Err(e) => {
                            t.infra(format!("spawn: {}", e));
                            continue;
                        }
                    };
                    t.eval();
                    let consumed: String = if res.crashed { sched.clone() } else { sched.chars().take(res.consumed).collect() };
                    let faulty = consumed.chars().any(|c| c != 'o');
                    t.class(&format!("{:?}|{}|{}", init, if res.crashed { "crashed" } else if res.ret_ok == Some(true) { "returned-ok" } else { "returned-err" }, if faulty { "faulty" } else { "clean" }));
                    if faulty {
                        t.nontrivial(fnv_str(&format!("{:?}|{}", init, consumed)));
                    }
                    for (sig, d) in judge_state(&sb, init, &prev, &new, &res) {
                        t.violation(sig, format!("{} [initial={:?}, rename actions={} (o=ok,f=fail,b=crash-before,a=crash-after)]", d, init, consumed), json!({"kind": "c23", "init": format!("{:?}", init), "schedule": consumed, "unlink_crash": -1, "seed_round": round, "same_shape": same_shape}));
                    }
                    if job < 40 && wi == 0 {
                        t.sample(json!({"initial": format!("{:?}", init), "rename_actions": consumed, "crashed": res.crashed, "returned_ok": res.ret_ok}));
                    }
                    // crash inside directory removals: only for returning schedules, first round
                    if !res.crashed && round == 0 && res.unlinks > 0 {
                        for k in 0..res.unlinks {
                            setup(&sb, init, &prev, &new);
                            let r2 = match spawn(&["c23-child".into(), sb.to_string_lossy().to_string(), sched.clone(), k.to_string()]) {
                                Ok(r) => r,
                                Err(e) => {
                                    t.infra(format!("spawn: {}", e));
                                    continue;
                                }
                            };
                            t.eval();
                            t.class(&format!("{:?}|unlink-crash|{}", init, if r2.crashed { "crashed" } else { "returned" }));
                            t.nontrivial(fnv_str(&format!("{:?}|{}|u{}", init, consumed, k)));
                            for (sig, d) in judge_state(&sb, init, &prev, &new, &r2) {
                                t.violation(sig, format!("{} [initial={:?}, rename actions={}, process died after {} unlinkat calls]", d, init, consumed, k), json!({"kind": "c23", "init": format!("{:?}", init), "schedule": consumed, "unlink_crash": k, "same_shape": same_shape}));
                            }
                        }
                    }
                }
            }
        }
        // generation-stage faults (real generation; expensive)
        let stages: Vec<u32> = if thorough { vec![0, 1, 2, 3] } else { vec![0, 1] };
        let mut gj = 0usize;
        for init in [Init::None, Init::Dir] {
            for &stage in &stages {
                for abort in [false, true] {
                    gj += 1;
                    if gj % workers != wi {
                        continue;
                    }
                    let prev = gen_tree(&mut rng, "PREV");
                    let _ = std::fs::remove_dir_all(&sb);
                    std::fs::create_dir_all(&sb).unwrap();
                    if init == Init::Dir {
                        write_tree(&sb.join("out"), &prev);
                    }
                    let res = match spawn(&["c23-gen-child".into(), sb.to_string_lossy().to_string(), stage.to_string(), if abort { "abort".into() } else { "fail".into() }]) {
                        Ok(r) => r,
                        Err(e) => {
                            t.infra(format!("spawn: {}", e));
                            continue;
                        }
                    };
                    t.eval();
                    t.class(&format!("generation-fault|stage{}|{}", stage, if abort { "abort" } else { "fail" }));
                    t.nontrivial(fnv_str(&format!("gen|{:?}|{}|{}", init, stage, abort)));
                    let out = sb.join("out");
                    let untouched = match init {
                        Init::Dir => read_tree(&out).as_ref() == Some(&prev),
                        _ => !out.exists(),
                    };
                    let case = json!({"kind": "c23_gen", "init": format!("{:?}", init), "stage": stage, "abort": abort});
                    if !untouched {
                        t.violation("C23:failed-generation-touches-output", format!("generation fault at stage {} ({}) changed the output path (initial {:?})", stage, if abort { "abort" } else { "failure" }, init), case.clone());
                    }
                    if !abort {
                        if res.ret_ok != Some(false) {
                            t.violation("C23:failed-generation-reports-success", format!("generation with an injected failure at stage {} returned {:?}", stage, res.ret_ok), case.clone());
                        }
                        let leftovers: Vec<String> = leftover_dirs(&sb);
                        if !leftovers.is_empty() {
                            t.violation("C23:staging-left-behind", format!("failed generation (stage {}) left {:?} behind", stage, leftovers), case.clone());
                        }
                    }
                }
            }
        }
        // write faults: the k-th file creation of the real generation fails (EIO) or the process dies there
        if wi == 2 % workers || workers > 4 {
            let _ = std::fs::remove_dir_all(&sb);
            std::fs::create_dir_all(&sb).unwrap();
            // count the file creations of a clean run (and record the complete new set)
            let clean = spawn(&["c23-gen-child".into(), sb.to_string_lossy().to_string(), "999".into(), "fail".into()]);
            if let Ok(clean) = clean {
                let n_creates = clean.unlinks; // the gen child reports its create count in this field
                let full_set: Option<Vec<String>> = read_tree(&sb.join("out")).map(|t| t.keys().cloned().collect());
                if clean.ret_ok != Some(true) || full_set.is_none() || n_creates <= 0 {
                    t.infra(format!("clean generation run failed or created no files (ret={:?}, creates={})", clean.ret_ok, n_creates));
                } else {
                    let full_set = full_set.unwrap();
                    let mut wj = 0usize;
                    for k in 0..n_creates {
                        for abort in [false, true] {
                            for init in [Init::None, Init::Dir] {
                                wj += 1;
                                if workers > 4 && wj % workers != wi {
                                    continue;
                                }
                                // quick tier: failure on every k with a previous set; aborts and the no-previous case sampled
                                if !thorough && (abort || init == Init::None) && k % 3 != 0 {
                                    continue;
                                }
                                let prev = gen_tree(&mut rng, "PREV");
                                let _ = std::fs::remove_dir_all(&sb);
                                std::fs::create_dir_all(&sb).unwrap();
                                if init == Init::Dir {
                                    write_tree(&sb.join("out"), &prev);
                                }
                                let res = match spawn(&["c23-gen-child".into(), sb.to_string_lossy().to_string(), (1000 + k).to_string(), if abort { "abort".into() } else { "fail".into() }]) {
                                    Ok(r) => r,
                                    Err(e) => {
                                        t.infra(e);
                                        continue;
                                    }
                                };
                                t.eval();
                                t.class(&format!("generation-write-fault|{}", if abort { "abort" } else { "EIO" }));
                                t.nontrivial(fnv_str(&format!("wf|{:?}|{}|{}", init, k, abort)));
                                let out = sb.join("out");
                                let case = json!({"kind": "c23_gen", "init": format!("{:?}", init), "failing_file_creation": k, "abort": abort});
                                let untouched = match init {
                                    Init::Dir => read_tree(&out).as_ref() == Some(&prev),
                                    _ => !out.exists(),
                                };
                                let new_complete = read_tree(&out).map(|t| t.keys().cloned().collect::<Vec<_>>() == full_set).unwrap_or(false);
                                let leftovers: Vec<String> = leftover_dirs(&sb);
                                match res.ret_ok {
                                    Some(true) => {
                                        if !new_complete {
                                            t.violation("C23:reports-success-with-incomplete-set", format!("generation returned Ok although file creation #{} failed and the output is not the complete new set", k), case.clone());
                                        }
                                    }
                                    Some(false) => {
                                        if !untouched {
                                            t.violation("C23:failed-generation-touches-output", format!("generation failed at file creation #{} and changed the output path (initial {:?})", k, init), case.clone());
                                        }
                                        if !leftovers.is_empty() {
                                            t.violation("C23:staging-left-behind", format!("generation failed at file creation #{} and left {:?} behind", k, leftovers), case.clone());
                                        }
                                    }
                                    None => {
                                        // process died: the output must still be the previous state (staging leftovers are expected)
                                        if !untouched && !new_complete {
                                            t.violation("C23:crash-during-generation-touches-output", format!("process death at file creation #{} left the output path neither untouched nor complete", k), case.clone());
                                        }
                                    }
                                }
                            }
                        }
                    }
                }
            }
        }
        let _ = std::fs::remove_dir_all(&sb);
    });
    let _ = std::fs::remove_dir_all(&base);
    ctx.set_exhaustive(true);
    ctx.extra("exhaustive_subspaces", json!(["initial state x rename-action schedules (all action strings up to the three rename calls)", "unlinkat crash points of every returning schedule"]));
}

pub fn replay(case: &Value) -> Result<bool, String> {
    let mut t = Tally::new();
    if case["kind"] != "c23" {
        return Err("generation-stage replays: re-run ./check C23".into());
    }
    let init = match case["init"].as_str() {
        Some("None") => Init::None,
        Some("File") => Init::File,
        _ => Init::Dir,
    };
    let sched = case["schedule"].as_str().ok_or("schedule")?.to_string();
    let k = case["unlink_crash"].as_i64().unwrap_or(-1);
    let sb = std::env::temp_dir().join(format!("qpv-c23-replay-{}", std::process::id()));
    let mut rng = Rng::new(1);
    let prev = gen_tree(&mut rng, "PREV");
    let new = if case["same_shape"].as_bool().unwrap_or(false) { same_shape_tree(&mut rng, &prev) } else { gen_tree(&mut rng, "NEW!") };
    setup(&sb, init, &prev, &new);
    let res = spawn(&["c23-child".into(), sb.to_string_lossy().to_string(), sched, k.to_string()])?;
    let v = judge_state(&sb, init, &prev, &new, &res);
    let _ = std::fs::remove_dir_all(&sb);
    for (s, d) in &v {
        eprintln!("replay: [{}] {}", s, d);
    }
    let _ = &mut t;
    Ok(!v.is_empty())
}
