//! C30 (less-than gadget), C31 (digest sort gadget) on single-gadget circuits, and
//! C10 (no witness freedom) as hint sweeps over wrapper and gadget circuits.

use plonky2::iop::target::Target;
use plonky2::iop::witness::PartitionWitness;
use plonky2::plonk::circuit_builder::CircuitBuilder;
use plonky2::plonk::circuit_data::CircuitConfig;
use serde_json::{json, Value};
use zk_circuits_common::circuit::{C, D, F};
use zk_circuits_common::gadgets::{enforce_target_less_than_const, is_const_less_than, sort_digests4};

use crate::engine::e1::{f, Circuit, Outcome, Replace};
use crate::engine::hints::{self, HintClass};
use crate::refm::{D4, P};
use crate::util::rng::Rng;
use crate::util::{catch, fnv_u64s, Ctx, Tally};

// ------------------------------------------------------------------ C30 -----

pub struct LtCircuit {
    pub width: usize,
    pub consts: Vec<u64>,
    pub circuit: Circuit,
    pub elem: Target,
}

pub fn build_lt(width: usize, consts: &[u64]) -> Result<LtCircuit, String> {
    let consts = consts.to_vec();
    let r = catch(|| {
        let mut b = CircuitBuilder::<F, D>::new(CircuitConfig::standard_recursion_config());
        let elem = b.add_virtual_target();
        for c in &consts {
            let o = is_const_less_than(&mut b, *c as usize, elem, width);
            b.register_public_input(o.target);
        }
        (b.build::<C>(), elem)
    });
    let (data, elem) = r.map_err(|e| format!("building lt gadget circuit width {} panicked: {}", width, e))?;
    let mut circuit = Circuit::new(data);
    circuit.learn_io(&[(elem, f(0))])?;
    Ok(LtCircuit {
        width,
        consts,
        circuit,
        elem,
    })
}

pub struct BoundCircuit {
    pub n_log: usize,
    pub bound: u64,
    pub circuit: Circuit,
    pub elem: Target,
}

pub fn build_bound(n_log: usize, bound: u64) -> Result<BoundCircuit, String> {
    let r = catch(|| {
        let mut b = CircuitBuilder::<F, D>::new(CircuitConfig::standard_recursion_config());
        let elem = b.add_virtual_target();
        enforce_target_less_than_const(&mut b, elem, bound as usize, n_log);
        b.register_public_input(elem);
        (b.build::<C>(), elem)
    });
    let (data, elem) = r.map_err(|e| format!("building bound circuit panicked: {}", e))?;
    let mut circuit = Circuit::new(data);
    circuit.learn_io(&[(elem, f(0))])?;
    Ok(BoundCircuit {
        n_log,
        bound,
        circuit,
        elem,
    })
}

/// Sweep all hint generators on one gadget case. `on_sat` is called with
/// (gen, alt, pis) for every satisfiable alternative.
fn sweep_all(
    circ: &Circuit,
    inputs: &[(Target, F)],
    rng: &mut Rng,
    t: &mut Tally,
    on_sat: impl FnMut(usize, &hints::Alt, &[u64], &mut Tally),
) -> (u64, u64) {
    sweep_some(circ, inputs, rng, t, usize::MAX, on_sat)
}

/// As `sweep_all`, over a random subset of at most `max_gens` hint generators.
fn sweep_some(
    circ: &Circuit,
    inputs: &[(Target, F)],
    rng: &mut Rng,
    t: &mut Tally,
    max_gens: usize,
    mut on_sat: impl FnMut(usize, &hints::Alt, &[u64], &mut Tally),
) -> (u64, u64) {
    let r = circ.run(inputs, &[], true, false);
    let Some(w) = r.witness else { return (0, 0) };
    let mut gens = hints::hint_gens(circ);
    if gens.len() > max_gens {
        rng.shuffle(&mut gens);
        gens.truncate(max_gens);
        gens.sort();
    }
    let mut plausible = 0u64;
    let mut sat_alts: Vec<(usize, hints::Alt, Vec<u64>)> = vec![];
    let n = hints::sweep(circ, inputs, &[], &w, &gens, rng, |h| {
        if h.alt.numerically_plausible {
            plausible += 1;
        }
        if let Outcome::Sat { pis } = h.outcome {
            sat_alts.push((h.gen, h.alt, pis));
        }
    });
    drop(w);
    t.evals(n as u64);
    for (g, a, p) in &sat_alts {
        on_sat(*g, a, p, t);
    }
    (n as u64, plausible)
}

fn lt_case(lc: &LtCircuit, e: u64, rng: &mut Rng, t: &mut Tally, sweep: bool) {
    let inputs = vec![(lc.elem, f(e))];
    let out = lc.circuit.eval(&inputs, &[]);
    t.eval();
    let w = lc.width;
    let in_range = w == 64 || (e as u128) < (1u128 << w);
    let expect: Vec<u64> = lc.consts.iter().map(|c| (*c < e) as u64).collect();
    let case = json!({"kind": "lt", "width": w, "constants": lc.consts, "element": e});
    match (&out, in_range) {
        (Outcome::Sat { pis }, true) => {
            if pis != &expect {
                let k = pis.iter().zip(expect.iter()).position(|(a, b)| a != b).unwrap_or(0);
                t.violation(
                    "C30:wrong-output".to_string(),
                    format!("width {}: is_const_less_than({}, {}) = {} on the honest witness, integers say {}", w, lc.consts[k], e, pis[k], expect[k]),
                    case.clone(),
                );
            }
        }
        (Outcome::Sat { .. }, false) => match lc.circuit.confirm(&inputs, &[]) {
            Ok(_) => t.violation("C30:range-not-enforced".to_string(), format!("width {}: satisfiable for element {} >= 2^{}", w, e, w), case.clone()),
            Err(er) => t.infra(format!("C30 evaluator Sat / prover disagree: {}", er)),
        },
        (Outcome::Unsat(u), true) => match lc.circuit.confirm(&inputs, &[]) {
            Ok(_) => t.infra("C30 evaluator Unsat / prover verifies".to_string()),
            Err(_) => t.violation("C30:rejects-in-range".to_string(), format!("width {}: unsatisfiable for in-range element {}: {:?}", w, e, u), case.clone()),
        },
        (Outcome::Unsat(_), false) => {}
    }
    let near = lc.consts.iter().any(|c| c.abs_diff(e) <= 1) || (w < 64 && ((1u128 << w) as i128 - e as i128).abs() <= 1) || e < 0xFFFF_FFFF;
    if near {
        t.nontrivial(fnv_u64s(&[w as u64, e, lc.consts.len() as u64, lc.consts[0]]));
    }
    t.class(&format!("w={}|{}", if w <= 8 { "<=8" } else if w < 32 { "9..31" } else if w < 64 { "32..63" } else { "64" }, if in_range { "in-range" } else { "out-of-range" }));
    if sweep {
        let (n, pl) = sweep_all(&lc.circuit, &inputs, rng, t, |g, alt, pis, t| {
            // any satisfying alternative must still have the integer-correct outputs and, for
            // out-of-range elements, must not exist at all
            if !in_range || pis != expect.as_slice() {
                let repl = vec![Replace { gen: g, values: alt.values.clone() }];
                match lc.circuit.confirm(&inputs, &repl) {
                    Ok(_) => t.violation(
                        "C30:hint-flips".to_string(),
                        format!("width {}: hint override {} on generator {} ({}) yields outputs {:?} for element {} (integers: {:?})",
                                w, alt.desc, g, lc.circuit.gen_ids[g], pis, e, expect),
                        json!({"kind": "lt_hint", "width": w, "constants": lc.consts, "element": e, "gen": g, "alt": alt.desc}),
                    ),
                    Err(er) => t.infra(format!("C30 hint Sat / prover disagree: {}", er)),
                }
            }
        });
        t.count("hint_alternatives_evaluated", n);
        t.count("hint_alternatives_numerically_plausible", pl);
    }
}

pub fn run_c30(ctx: &Ctx) {
    ctx.set_rule(
        "one circuit per width holding many instances of is_const_less_than over a shared element, outputs registered as public inputs. widths 1..8: every constant 0..2^w-1 x every element 0..2^w+2 plus {2^32,p-2^32,p-1} (exhaustive over inputs); \
         widths 9..63: constants and elements from {0,1,c-1,c,c+1,2^w-1,2^w,2^w+1,p-1,random}; width 64: also constants >= p and elements < 2^32-1 (those with a 64-bit alias); \
         enforce_target_less_than_const over (n_log, bound) pairs; single-generator hint sweeps (bit vectors of v+p, bit flips, (lo,hi) of v+p, borrow/carry, flipped equality flags) on every width>=32 case and a sample below. \
         Oracle: Sat <=> element < 2^w (w<64); every Sat witness (honest or alternative) has outputs == (constant < element) over the integers. Non-trivial: element within 1 of a constant or of 2^w, or an element with an existing alias (< 2^32-1).",
    );
    ctx.set_exhaustive(false);
    ctx.extra("exhaustive_subspaces", json!(["widths 1..8: all constants x all elements 0..2^w+2 (inputs, not witnesses)"]));
    let thorough = ctx.tier == crate::util::Tier::Thorough;
    let workers = ctx.n_workers();
    // work items: (width, constants)
    let mut items: Vec<(usize, Vec<u64>)> = vec![];
    for w in 1..=8usize {
        items.push((w, (0..(1u64 << w)).collect()));
    }
    let mut seed_rng = Rng::fork(ctx.seed, 999);
    for w in 9..=64usize {
        let mut cs: Vec<u64> = vec![0, 1];
        let top: u128 = 1u128 << w;
        let maxc = (top - 1).min(u64::MAX as u128) as u64;
        cs.push(if w == 64 { maxc - 1 } else { maxc });
        cs.push(maxc - 2);
        cs.push(maxc / 2);
        for _ in 0..ctx.tier.pick(6, 20) {
            cs.push(seed_rng.below(maxc));
        }
        if w == 64 {
            cs.extend_from_slice(&[P - 1, P, P + 1, u64::MAX - 1, u64::MAX - 2, 0xFFFF_FFFF, 0xFFFF_FFFE, 1 << 32]);
        }
        if w >= 33 {
            cs.extend_from_slice(&[0xFFFF_FFFF, 1 << 32, (1 << 32) + 1]);
        }
        cs.sort();
        cs.dedup();
        items.push((w, cs));
    }
    let items = &items;
    ctx.par(workers, |wi, t| {
        let mut rng = Rng::fork(ctx.seed, wi as u64);
        for (ii, (w, cs)) in items.iter().enumerate() {
            if ii % workers != wi {
                continue;
            }
            let lc = match build_lt(*w, cs) {
                Ok(l) => l,
                Err(e) => {
                    t.infra(e);
                    continue;
                }
            };
            let mut elems: Vec<u64> = vec![];
            if *w <= 8 {
                elems.extend(0..=(1u64 << w) + 2);
                elems.extend_from_slice(&[1 << 32, P - (1 << 32), P - 1]);
            } else {
                let top: u128 = 1u128 << w;
                for c in cs {
                    for d in [-1i128, 0, 1] {
                        let v = *c as i128 + d;
                        if v >= 0 && (v as u128) < P as u128 {
                            elems.push(v as u64);
                        }
                    }
                }
                for v in [top - 1, top, top + 1] {
                    if v < P as u128 {
                        elems.push(v as u64);
                    }
                }
                elems.extend_from_slice(&[0, 1, P - 1, P - 2, 0xFFFF_FFFE, 0xFFFF_FFFF, 1 << 32]);
                for _ in 0..ctx.tier.pick(10, 120) {
                    elems.push(rng.felt());
                    if *w < 64 {
                        elems.push(rng.below(((top - 1).min(u64::MAX as u128)) as u64 + 1));
                    }
                }
                if *w == 64 {
                    for _ in 0..ctx.tier.pick(10, 100) {
                        elems.push(rng.below(0xFFFF_FFFF));
                    }
                }
                elems.sort();
                elems.dedup();
            }
            for (ei, e) in elems.iter().enumerate() {
                let sweep = if *w >= 32 {
                    thorough || ei % 4 == 0
                } else if *w <= 8 {
                    // each width<=8 circuit carries up to 256 instances: sweep a few elements
                    ei % ctx.tier.pick(64, 8) == 0
                } else {
                    ei % ctx.tier.pick(16, 2) == 0
                };
                lt_case(&lc, *e, &mut rng, t, sweep);
            }
            if ii < 3 || *w == 64 {
                t.sample(json!({"width": w, "constants": cs.iter().take(8).collect::<Vec<_>>(), "elements": elems.iter().take(8).collect::<Vec<_>>(), "n_elements": elems.len()}));
            }
        }
        // enforce_target_less_than_const
        let mut bounds: Vec<(usize, u64)> = vec![(5, 17), (5, 32), (5, 1), (1, 1), (1, 2), (8, 200), (16, 65535), (32, 1 << 32), (33, (1 << 32) + 1), (63, 1 << 62), (64, P), (64, P - 1), (64, u64::MAX), (64, 1 << 32), (64, 0xFFFF_FFFF)];
        for _ in 0..ctx.tier.pick(4, 40) {
            let n_log = 1 + rng.usize(63);
            let top = (1u128 << n_log).min(u64::MAX as u128) as u64;
            bounds.push((n_log, 1 + rng.below(top)));
        }
        for (bi, (n_log, bound)) in bounds.iter().enumerate() {
            if bi % workers != wi {
                continue;
            }
            let bc = match build_bound(*n_log, *bound) {
                Ok(b) => b,
                Err(e) => {
                    t.infra(e);
                    continue;
                }
            };
            let mut elems = vec![0u64, 1, P - 1, bound.wrapping_sub(1), *bound, bound.wrapping_add(1), 0xFFFF_FFFE];
            for _ in 0..20 {
                elems.push(rng.felt());
                elems.push(rng.below(*bound));
            }
            for e in elems {
                if e >= P {
                    continue;
                }
                let inputs = vec![(bc.elem, f(e))];
                let out = bc.circuit.eval(&inputs, &[]);
                t.eval();
                let ok = e < *bound;
                t.class(&format!("bound|{}", if ok { "below" } else { "at-or-above" }));
                if out.is_sat() != ok {
                    let c = bc.circuit.confirm(&inputs, &[]);
                    if out.is_sat() == c.is_ok() {
                        t.violation(
                            if out.is_sat() { "C30:bound-accepts".to_string() } else { "C30:bound-rejects".to_string() },
                            format!("enforce_target_less_than_const(n_log={}, bound={}) on value {}: satisfiable={} but value<bound={}", n_log, bound, e, out.is_sat(), ok),
                            json!({"kind": "bound", "n_log": n_log, "bound": bound, "element": e}),
                        );
                    } else {
                        t.infra("C30 bound: evaluator / prover disagree".to_string());
                    }
                }
                if e.abs_diff(*bound) <= 1 {
                    t.nontrivial(fnv_u64s(&[77, *n_log as u64, *bound, e]));
                }
                if !ok {
                    // no hint may rescue an out-of-bound value
                    let (n, pl) = sweep_all(&bc.circuit, &inputs, &mut rng, t, |g, alt, _pis, t| {
                        let repl = vec![Replace { gen: g, values: alt.values.clone() }];
                        if bc.circuit.confirm(&inputs, &repl).is_ok() {
                            t.violation("C30:bound-hint".to_string(),
                                format!("bound check (n_log={}, bound={}) passes for {} with hint override {}", n_log, bound, e, alt.desc),
                                json!({"kind": "bound_hint", "n_log": n_log, "bound": bound, "element": e, "gen": g, "alt": alt.desc}));
                        }
                    });
                    t.count("hint_alternatives_evaluated", n);
                    t.count("hint_alternatives_numerically_plausible", pl);
                }
            }
        }
    });
}

// ------------------------------------------------------------------ C31 -----

pub struct SortCircuit {
    pub len: usize,
    pub circuit: Circuit,
    pub ins: Vec<[Target; 4]>,
}

pub fn build_sort(len: usize) -> Result<SortCircuit, String> {
    let r = catch(|| {
        let mut b = CircuitBuilder::<F, D>::new(CircuitConfig::standard_recursion_config());
        let ins: Vec<[Target; 4]> = (0..len)
            .map(|_| [b.add_virtual_target(), b.add_virtual_target(), b.add_virtual_target(), b.add_virtual_target()])
            .collect();
        let outs = sort_digests4(&mut b, ins.clone());
        for o in &outs {
            b.register_public_inputs(o);
        }
        (b.build::<C>(), ins)
    });
    let (data, ins) = r.map_err(|e| format!("building sort circuit len {} panicked: {}", len, e))?;
    let mut sc = SortCircuit {
        len,
        circuit: Circuit::new(data),
        ins,
    };
    let vals: Vec<D4> = (0..len).map(|i| [i as u64, 1, 2, 3]).collect();
    let inp = sc.fill(&vals);
    sc.circuit.learn_io(&inp)?;
    Ok(sc)
}

impl SortCircuit {
    pub fn fill(&self, vals: &[D4]) -> Vec<(Target, F)> {
        let mut v = vec![];
        for (ts, d) in self.ins.iter().zip(vals.iter()) {
            for j in 0..4 {
                v.push((ts[j], f(d[j])));
            }
        }
        v
    }
}

const SORT_EDGE: [u64; 8] = [0, 1, 0xFFFF_FFFE, 0xFFFF_FFFF, 1 << 32, (1 << 32) + 1, P - 2, P - 1];

fn gen_sort_list(rng: &mut Rng, len: usize) -> Vec<D4> {
    let style = rng.below(7);
    let mut base: D4 = [*rng.pick(&SORT_EDGE), *rng.pick(&SORT_EDGE), rng.felt(), rng.felt()];
    let mut v: Vec<D4> = (0..len)
        .map(|_| {
            let mut d: D4 = [0; 4];
            match style {
                0 => d = [rng.felt(), rng.felt(), rng.felt(), rng.felt()],
                1 => {
                    // shared prefix of 1..3 limbs
                    let k = 1 + rng.usize(3);
                    d = base;
                    for x in d.iter_mut().skip(k) {
                        *x = if rng.bool() { *rng.pick(&SORT_EDGE) } else { rng.felt() };
                    }
                }
                2 => {
                    for x in d.iter_mut() {
                        *x = *rng.pick(&SORT_EDGE);
                    }
                }
                3 => d = base, // all equal
                4 => {
                    // small alphabet => many duplicates
                    for x in d.iter_mut() {
                        *x = rng.below(2) * (P - 1);
                    }
                }
                _ => {
                    for x in d.iter_mut() {
                        *x = rng.felt_edgy();
                    }
                }
            }
            d
        })
        .collect();
    match rng.below(5) {
        0 => v.sort(),
        1 => {
            v.sort();
            v.reverse();
        }
        2 if len >= 2 => {
            let i = rng.usize(len);
            let j = rng.usize(len);
            v[i] = v[j];
        }
        _ => {}
    }
    base[0] = 0;
    v
}

fn sort_case(sc: &SortCircuit, vals: &[D4], rng: &mut Rng, t: &mut Tally, sweep: usize) {
    let inputs = sc.fill(vals);
    let out = sc.circuit.eval(&inputs, &[]);
    t.eval();
    let mut sorted = vals.to_vec();
    sorted.sort();
    let expect: Vec<u64> = sorted.iter().flatten().copied().collect();
    let case = json!({"kind": "sort", "len": sc.len, "input": vals});
    match &out {
        Outcome::Sat { pis } => {
            if pis != &expect {
                t.violation("C31:wrong-output".to_string(), format!("sort gadget output for a list of {} differs from the ascending [u64;4] order", sc.len), case.clone());
            }
        }
        Outcome::Unsat(u) => match sc.circuit.confirm(&inputs, &[]) {
            Ok(_) => t.infra("C31 evaluator Unsat / prover verifies".to_string()),
            Err(_) => t.violation("C31:honest-unsat".to_string(), format!("sort gadget unsatisfiable on canonical input: {:?}", u), case.clone()),
        },
    }
    let tie_first = (0..vals.len()).any(|i| (0..i).any(|j| vals[i][0] == vals[j][0]));
    let aliasable = vals.iter().flatten().any(|x| *x < 0xFFFF_FFFF);
    t.class(&format!("len={}|tie_first_limb={}|aliasable={}", if sc.len <= 3 { sc.len.to_string() } else if sc.len <= 16 { "4..16".into() } else { ">16".into() }, tie_first, aliasable));
    if tie_first || aliasable {
        let flat: Vec<u64> = vals.iter().flatten().copied().collect();
        t.nontrivial(fnv_u64s(&flat));
    }
    if sweep > 0 {
        let (n, pl) = sweep_some(&sc.circuit, &inputs, rng, t, sweep, |g, alt, pis, t| {
            if pis != expect.as_slice() {
                let repl = vec![Replace { gen: g, values: alt.values.clone() }];
                match sc.circuit.confirm(&inputs, &repl) {
                    Ok(_) => {
                        // classify: permutation or not
                        let mut got: Vec<D4> = pis.chunks(4).map(|c| [c[0], c[1], c[2], c[3]]).collect();
                        let is_perm = {
                            got.sort();
                            got == sorted
                        };
                        t.violation(
                            if is_perm { "C31:hint-misorders".to_string() } else { "C31:hint-non-permutation".to_string() },
                            format!("hint override {} on generator {} ({}) yields a different sort output (permutation of input: {})", alt.desc, g, sc.circuit.gen_ids[g], is_perm),
                            json!({"kind": "sort_hint", "len": sc.len, "input": vals, "gen": g, "alt": alt.desc}),
                        )
                    }
                    Err(er) => t.infra(format!("C31 hint Sat / prover disagree: {}", er)),
                }
            }
        });
        t.count("hint_alternatives_evaluated", n);
        t.count("hint_alternatives_numerically_plausible", pl);
    }
}

pub fn run_c31(ctx: &Ctx) {
    let lens: Vec<usize> = ctx.tier.pick(vec![1, 2, 3, 4, 5, 7, 8, 12, 16], vec![1, 2, 3, 4, 5, 6, 7, 8, 9, 12, 16, 24, 32, 48, 64]);
    let per_len = ctx.tier.pick(1200usize, 20_000);
    let sweeps_per_len = ctx.tier.pick(24usize, 240);
    // lists longer than 5 have thousands of hint generators: sweep a random subset per list
    let gens_cap = ctx.tier.pick(120usize, 400);
    ctx.set_rule(&format!(
        "sort_digests4 circuits for lengths {:?} (outputs registered as public inputs). lengths 2 and 3 exhaustively over digests with limbs in {{0,1,p-1}} in the two most significant positions; \
         {} generated lists per length (random, shared prefixes of 1..3 limbs, all-edge limbs {{0,1,2^32-2,2^32-1,2^32,2^32+1,p-2,p-1}}, all equal, 2-letter alphabet, pre-sorted, reverse-sorted, forced duplicates); \
         single-generator hint sweep (all hint generators for lengths <= 5, a random subset of {} per list above; canonical-split p-alias halves, borrow/carry, flipped comparator bits and equality flags, bit flips) on {} lists per length. \
         Oracle: honest witness Sat with output == input sorted ascending by [u64;4]; every Sat alternative has the same output. Non-trivial: a tie in the first limb or an aliasable limb (< 2^32-1).",
        lens, per_len, gens_cap, sweeps_per_len));
    ctx.extra("exhaustive_subspaces", json!(["length 2: all pairs over limbs {0,1,p-1}^2 in positions 0,1", "length 3: all triples over limbs {0,p-1}^2 in positions 0,1"]));
    let workers = ctx.n_workers();
    let lens = &lens;
    ctx.par(workers, |wi, t| {
        let mut rng = Rng::fork(ctx.seed, wi as u64);
        for (li, &len) in lens.iter().enumerate() {
            // large circuits are expensive to build: spread lengths over workers, small lengths on all
            let share_all = len <= 8;
            if !share_all && li % workers != wi {
                continue;
            }
            let sc = match build_sort(len) {
                Ok(s) => s,
                Err(e) => {
                    t.infra(e);
                    continue;
                }
            };
            // a long list runs on one worker and its circuit is quadratic in the length: fewer cases there
            let shrink = (len / 8).max(1);
            let count = if share_all { per_len.div_ceil(workers) } else { per_len / 4 / shrink };
            let sw = if share_all { sweeps_per_len.div_ceil(workers) } else { (sweeps_per_len / 4 / shrink).max(2) };
            for c in 0..count {
                let vals = gen_sort_list(&mut rng, len);
                sort_case(&sc, &vals, &mut rng, t, if c < sw { if len <= 5 { usize::MAX } else { (gens_cap / shrink).max(40) } } else { 0 });
                if c == 0 && wi < 3 {
                    t.sample(json!({"len": len, "input": vals}));
                }
            }
            // exhaustive small domains
            if len == 2 && wi == 0 {
                let alpha = [0u64, 1, P - 1];
                let ds: Vec<D4> = alpha.iter().flat_map(|a| alpha.iter().map(move |b| [*a, *b, 5, 5])).collect();
                for a in &ds {
                    for b in &ds {
                        sort_case(&sc, &[*a, *b], &mut rng, t, 0);
                        t.class("exhaustive:len2");
                    }
                }
                // decisive limb in positions 2,3
                let ds2: Vec<D4> = alpha.iter().flat_map(|a| alpha.iter().map(move |b| [7, 7, *a, *b])).collect();
                for a in &ds2 {
                    for b in &ds2 {
                        sort_case(&sc, &[*a, *b], &mut rng, t, 0);
                        t.class("exhaustive:len2");
                    }
                }
            }
            if len == 3 && wi == 1 % workers {
                let alpha = [0u64, P - 1];
                let ds: Vec<D4> = alpha.iter().flat_map(|a| alpha.iter().map(move |b| [*a, *b, 1, 1])).collect();
                for a in &ds {
                    for b in &ds {
                        for c in &ds {
                            sort_case(&sc, &[*a, *b, *c], &mut rng, t, 0);
                            t.class("exhaustive:len3");
                        }
                    }
                }
            }
        }
    });
}

pub fn replay(case: &Value) -> Result<bool, String> {
    let mut t = Tally::new();
    let mut rng = Rng::new(5);
    match case["kind"].as_str() {
        Some("lt") | Some("lt_hint") => {
            let w = case["width"].as_u64().ok_or("width")? as usize;
            let cs: Vec<u64> = case["constants"].as_array().ok_or("constants")?.iter().map(|x| x.as_u64().unwrap_or(0)).collect();
            let e = case["element"].as_u64().ok_or("element")?;
            let lc = build_lt(w, &cs)?;
            for s in 0..4 {
                let mut r2 = Rng::new(s);
                lt_case(&lc, e, &mut r2, &mut t, true);
            }
        }
        Some("sort") | Some("sort_hint") => {
            let vals: Vec<D4> = case["input"].as_array().ok_or("input")?.iter().map(|d| {
                let a: Vec<u64> = d.as_array().unwrap().iter().map(|x| x.as_u64().unwrap_or(0)).collect();
                [a[0], a[1], a[2], a[3]]
            }).collect();
            let sc = build_sort(vals.len())?;
            for s in 0..4 {
                let mut r2 = Rng::new(s);
                sort_case(&sc, &vals, &mut r2, &mut t, usize::MAX);
            }
        }
        Some("bound") | Some("bound_hint") => {
            let n_log = case["n_log"].as_u64().ok_or("n_log")? as usize;
            let bound = case["bound"].as_u64().ok_or("bound")?;
            let e = case["element"].as_u64().ok_or("element")?;
            let bc = build_bound(n_log, bound)?;
            let inputs = vec![(bc.elem, f(e))];
            let ok = e < bound;
            if bc.circuit.confirm(&inputs, &[]).is_ok() != ok {
                return Ok(true);
            }
            let mut hit = false;
            sweep_all(&bc.circuit, &inputs, &mut rng, &mut t, |g, alt, _p, _t| {
                let repl = vec![Replace { gen: g, values: alt.values.clone() }];
                if !ok && bc.circuit.confirm(&inputs, &repl).is_ok() {
                    hit = true;
                }
            });
            return Ok(hit);
        }
        _ => return Err("unknown gadget replay kind".into()),
    }
    Ok(!t.violations.is_empty())
}

#[allow(dead_code)]
fn _unused(_: HintClass, _: &PartitionWitness<F>) {}

// ------------------------------------------------------------------ C10 -----

use crate::pbatch;
use crate::props::{privprops, pubprops};
use crate::pubbatch;

/// Sweep a subset of the hint generators of `circ`; returns (evaluated, plausible, sat alternatives).
fn sweep_subset(
    circ: &Circuit,
    inputs: &[(Target, F)],
    rng: &mut Rng,
    keep_one_in: u64,
) -> (u64, u64, Vec<(usize, hints::Alt, Vec<u64>)>) {
    let r = circ.run(inputs, &[], true, false);
    let Some(w) = r.witness else { return (0, 0, vec![]) };
    let gens: Vec<usize> = hints::hint_gens(circ).into_iter().filter(|_| keep_one_in <= 1 || rng.below(keep_one_in) == 0).collect();
    let mut plausible = 0;
    let mut sat = vec![];
    let n = hints::sweep(circ, inputs, &[], &w, &gens, rng, |h| {
        if h.alt.numerically_plausible {
            plausible += 1;
        }
        if let Outcome::Sat { pis } = h.outcome {
            sat.push((h.gen, h.alt, pis));
        }
    });
    (n as u64, plausible, sat)
}

fn judge_sweep(
    circ: &Circuit,
    inputs: &[(Target, F)],
    honest: &Outcome,
    label: &str,
    case: Value,
    rng: &mut Rng,
    keep_one_in: u64,
    t: &mut Tally,
) {
    let (n, pl, sat) = sweep_subset(circ, inputs, rng, keep_one_in);
    t.evals(n);
    t.count("hint_alternatives_evaluated", n);
    t.count("hint_alternatives_numerically_plausible", pl);
    t.class(&format!("{}|{}", label, if honest.is_sat() { "accepted" } else { "rejected" }));
    if pl > 0 {
        t.nontrivial(crate::util::fnv_str(&format!("{}|{}", label, case)));
    }
    // coordinated pairs (thorough tier): two hint generators replaced at once
    let n_pairs: usize = std::env::var("QPV_C10_PAIRS").ok().and_then(|s| s.parse().ok()).unwrap_or(0);
    if n_pairs > 0 {
        let r = circ.run(inputs, &[], true, false);
        if let Some(w) = r.witness {
            let gens = hints::hint_gens(circ);
            let mut found: Vec<(usize, usize, hints::Alt, hints::Alt, Vec<u64>)> = vec![];
            let n2 = hints::sweep_pairs(circ, inputs, &w, &gens, rng, n_pairs, |ga, gb, xa, xb, out| {
                if let Outcome::Sat { pis } = out {
                    found.push((ga, gb, xa.clone(), xb.clone(), pis));
                }
            });
            drop(w);
            t.evals(n2 as u64);
            t.count("hint_pairs_evaluated", n2 as u64);
            for (ga, gb, xa, xb, pis) in found {
                let bad = match honest {
                    Outcome::Sat { pis: hp } => &pis != hp,
                    Outcome::Unsat(_) => true,
                };
                if !bad {
                    continue;
                }
                let repl = vec![Replace { gen: ga, values: xa.values.clone() }, Replace { gen: gb, values: xb.values.clone() }];
                match circ.confirm(inputs, &repl) {
                    Ok(_) => t.violation(
                        format!("C10:{}:{}:pair", label.split('|').next().unwrap_or(label), if honest.is_sat() { "output-changes" } else { "rescued" }),
                        format!("{}: coordinated hint overrides {} on generator {} and {} on generator {} {}", label, xa.desc, ga, xb.desc, gb, if honest.is_sat() { "yield a different public output" } else { "make a failing batch provable" }),
                        json!({"kind": "c10", "label": label, "case": case, "gens": [ga, gb], "alts": [xa.desc, xb.desc]}),
                    ),
                    Err(e) => t.infra(format!("C10 pair Sat / prover disagree: {}", e)),
                }
            }
        }
    }
    for (g, alt, pis) in sat {
        let bad = match honest {
            Outcome::Sat { pis: hp } => &pis != hp,
            Outcome::Unsat(_) => true,
        };
        if !bad {
            continue;
        }
        let repl = vec![Replace { gen: g, values: alt.values.clone() }];
        match circ.confirm(inputs, &repl) {
            Ok(_) => t.violation(
                format!("C10:{}:{}", label.split('|').next().unwrap_or(label), if honest.is_sat() { "output-changes" } else { "rescued" }),
                format!("{}: hint override {} on generator {} ({}) {}", label, alt.desc, g, circ.gen_ids[g],
                        if honest.is_sat() { "yields a different public output for the same child inputs" } else { "makes a batch with a failing honest witness provable" }),
                json!({"kind": "c10", "label": label, "case": case, "gen": g, "alt": alt.desc}),
            ),
            Err(e) => t.infra(format!("C10 hint Sat / prover disagree: {}", e)),
        }
    }
}

pub fn run_c10(ctx: &Ctx) {
    ctx.set_rule(
        "accepted and rejected batches from the C06/C07/C12/C13 generators on the wrapper-only private (N<=4) and public ((2,2),(3,2)) circuits, and gadget circuits (is_const_less_than at widths 33/64, sort_digests4 at lengths 3/4); \
         for each, the single-generator hint sweep: every EqualityGenerator (flag flipped, inverse in {old,0,1/diff,random}), LowHighGenerator ((lo,hi) of v+p, borrow, carry, swap), WireSplit/BaseSplit (bit flips, non-boolean limb, bits of v+p) is replaced and all downstream generators recompute honestly. \
         Oracle: accepted batch => every Sat alternative has identical public inputs; rejected batch => no alternative is Sat (Sat candidates confirmed by the real prover). \
         Non-trivial: a case in which at least one overridden hint had a numerically valid alternative (alias exists, or equality inputs equal so the inverse is free).",
    );
    ctx.assume("single-generator replacement with honest recomputation downstream, plus sampled coordinated pairs of hint generators (neighbours in creation order and random pairs; 24 per case quick, 400 thorough); coordinated lies across >= 3 independent hint generators are out of reach");
    let priv_sizes = [1usize, 2, 3, 4];
    let privs = match privprops::build_circuits(&priv_sizes, false) {
        Ok(p) => p,
        Err(e) => {
            ctx.tally.lock().unwrap().infra(e);
            return;
        }
    };
    let pubs = match pubprops::build_pub_circuits(&[(2, 2), (3, 2)], &privs) {
        Ok(p) => p,
        Err(e) => {
            ctx.tally.lock().unwrap().infra(e);
            return;
        }
    };
    let workers = ctx.n_workers();
    let scale = ctx.tier.pick(1usize, 30);
    // pair sweeps: a small sample in quick, 400 pairs per case in thorough
    std::env::set_var("QPV_C10_PAIRS", ctx.tier.pick("24", "400"));
    ctx.par(workers, |wi, t| {
        let mut rng = Rng::fork(ctx.seed, wi as u64);
        // private wrapper
        for (n, count, keep) in [(1usize, 2 * scale, 1u64), (2, 3 * scale, 1), (3, scale, 3), (4, scale, 6)] {
            let pc = &privs[&n];
            for c in 0..count {
                let (l, p) = if c % 2 == 0 { pbatch::gen_accepted(&mut rng, n) } else { pbatch::gen_batch(&mut rng, n) };
                let inputs = pc.fill(&l, &p);
                let honest = pc.circuit.eval(&inputs, &[]);
                t.eval();
                judge_sweep(&pc.circuit, &inputs, &honest, &format!("private|N={}", n), pbatch::batch_json(&l, &p), &mut rng, keep, t);
                if c == 0 && wi == 0 {
                    t.sample(json!({"circuit": "private", "n": n, "honest": honest.short(), "leaves": l.iter().map(|x| x.to_json()).collect::<Vec<_>>()}));
                }
            }
        }
        // public wrapper
        for ((m, n), count) in [((2usize, 2usize), 2 * scale), ((3, 2), scale)] {
            let pb = &pubs[&(m, n)];
            for _ in 0..count {
                let (addr, inners) = pubbatch::gen_inners(&mut rng, m, n);
                let inputs = pb.fill(&addr, &inners);
                let honest = pb.circuit.eval(&inputs, &[]);
                t.eval();
                judge_sweep(&pb.circuit, &inputs, &honest, &format!("public|M={},N={}", m, n), pubbatch::inners_json(&addr, &inners), &mut rng, 1, t);
            }
        }
        // gadgets
        if wi % 4 == 0 {
            for w in [33usize, 64] {
                let cs: Vec<u64> = vec![0, 1, 0xFFFF_FFFE, 0xFFFF_FFFF, 1 << 32, rng.below(1 << 33)];
                if let Ok(lc) = build_lt(w, &cs) {
                    for _ in 0..(4 * scale) {
                        let e = match rng.below(4) {
                            0 => rng.below(0xFFFF_FFFF),
                            1 => *rng.pick(&cs),
                            2 => rng.below(1 << 33),
                            _ => rng.felt(),
                        };
                        let inputs = vec![(lc.elem, f(e))];
                        let honest = lc.circuit.eval(&inputs, &[]);
                        t.eval();
                        judge_sweep(&lc.circuit, &inputs, &honest, &format!("gadget:lt|w={}", w), json!({"width": w, "constants": cs, "element": e}), &mut rng, 1, t);
                    }
                }
            }
        }
        if wi % 4 == 1 {
            for len in [3usize, 4] {
                if let Ok(sc) = build_sort(len) {
                    for _ in 0..(3 * scale) {
                        let vals = gen_sort_list(&mut rng, len);
                        let inputs = sc.fill(&vals);
                        let honest = sc.circuit.eval(&inputs, &[]);
                        t.eval();
                        judge_sweep(&sc.circuit, &inputs, &honest, &format!("gadget:sort|len={}", len), json!({"input": vals}), &mut rng, 1, t);
                    }
                }
            }
        }
    });
}
