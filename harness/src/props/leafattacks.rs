//! Attack generators for C01–C04 (leaf circuit).

use crate::engine::e1::f;
use crate::leaf::{LeafCircuit, LeafW};
use crate::props::leafdrv::{self, Case, DrvCfg, Expect};
use crate::refm::{self, D4, P};
use crate::util::rng::Rng;
use crate::util::{Ctx, Tier};

fn big_magnitudes(rng: &mut Rng) -> Vec<(String, u64)> {
    let k = 1 + rng.below(1000);
    vec![
        ("2^32".into(), 1u64 << 32),
        ("2^32+k".into(), (1u64 << 32) + k),
        ("2^33-1".into(), (1u64 << 33) - 1),
        ("2^48-k".into(), (1u64 << 48) - k),
        ("2^48+k".into(), (1u64 << 48) + k),
        ("p-k".into(), P - k),
        ("p-1".into(), P - 1),
        ("rand64".into(), {
            let mut v = rng.felt();
            if v < (1 << 32) {
                v += 1 << 40;
            }
            v
        }),
    ]
}

fn rand_d4(rng: &mut Rng) -> D4 {
    [rng.felt(), rng.felt(), rng.felt(), rng.felt()]
}

fn case(clause: &str, variant: &str, pure_: bool, w: LeafW, expect: Expect) -> Case {
    Case {
        clause: clause.into(),
        variant: variant.into(),
        pure_single_clause: pure_,
        w,
        extra: vec![],
        expect,
    }
}

// ------------------------------------------------------------------ C01 -----

pub fn c01_attacks(rng: &mut Rng, base: &LeafW, _lc: &LeafCircuit) -> Vec<Case> {
    let mut out = vec![];
    let dummy = base.is_dummy_sentinel();

    // (a) one scalar out of range, everything else true in the field
    for (mname, m) in big_magnitudes(rng) {
        // asset: in the leaf hash only
        {
            let mut w = base.clone();
            w.asset = m;
            if !dummy {
                w.rebind_tree();
            }
            out.push(case("range:asset", &mname, true, w, Expect::Unsat));
        }
        // transfer count limbs: nullifier preimage + leaf hash
        for (i, nm) in [(0usize, "range:tc_hi"), (1usize, "range:tc_lo")] {
            let mut w = base.clone();
            w.null_tc[i] = m;
            w.leaf_tc[i] = m;
            if !dummy {
                w.rebind_all();
            }
            out.push(case(nm, &mname, true, w, Expect::Unsat));
        }
        // block number: header preimage only
        {
            let mut w = base.clone();
            w.header.number = m;
            if !dummy {
                w.rebind_tree();
            }
            out.push(case("range:block_number", &mname, true, w, Expect::Unsat));
        }
        // input amount: keep the fee inequality true in the field when possible
        {
            let mut w = base.clone();
            w.input = m;
            // pure iff in*(10000-fee) - total*10000 stays in [0, 2^48) over the integers mod p
            let fc = 10000 - w.fee;
            let rhs = refm::fmul(m, fc);
            let lhs = refm::fmul(refm::fadd(w.out1, w.out2), 10000);
            let diff = refm::fsub(rhs, lhs);
            let pure_ = diff < (1u64 << 48);
            if !dummy {
                w.rebind_tree();
            }
            out.push(case("range:input", &mname, pure_, w, Expect::Unsat));
        }
        if !dummy {
            // out1 big with out2 compensating so that the field sum is small
            for (which, nm) in [(1, "range:out1"), (2, "range:out2")] {
                let mut w = base.clone();
                let total = base.out1 + base.out2; // small honest total
                let other = refm::fsub(total, m); // other = total - m (mod p)
                if which == 1 {
                    w.out1 = m;
                    w.out2 = other;
                } else {
                    w.out2 = m;
                    w.out1 = other;
                }
                // exactly one of the two is out of range only when `other` < 2^32;
                // that holds for m = p-k with k <= total.
                let pure_ = other < (1u64 << 32);
                out.push(case(nm, &mname, pure_, w, Expect::Unsat));
            }
        }
    }
    // out_i = p - j with the sibling output = j + t (field total t): pure single-clause
    if !dummy {
        let total = base.out1 + base.out2;
        for (which, nm) in [(1, "range:out1"), (2, "range:out2")] {
            let j = 1 + rng.below(1000);
            let mut w = base.clone();
            if total + j <= u32::MAX as u64 {
                if which == 1 {
                    w.out1 = P - j;
                    w.out2 = total + j;
                } else {
                    w.out2 = P - j;
                    w.out1 = total + j;
                }
                out.push(case(nm, "p-j,compensated", true, w, Expect::Unsat));
            }
        }
    }

    // (b) fee bound alone: in = out = 0 on a real statement (or the dummy itself)
    for fee in [10001u64, 16383, 16384, (1 << 32) - 1, P - 1, P - 1 - rng.below(6000)] {
        let mut w = base.clone();
        w.input = 0;
        w.out1 = 0;
        w.out2 = 0;
        w.fee = fee;
        if !dummy {
            // outs = 0 but block hash stays non-zero => still a real statement
            w.rebind_tree();
        }
        let variant = if fee >= P - 6400 {
            "fee=p-k(complement in range)".to_string()
        } else {
            format!("fee={}", fee)
        };
        out.push(case("fee:bound", &variant, true, w, Expect::Unsat));
    }

    // (c) fee inequality violated by delta (integers): fc = 1 (fee 9999), in = total*10000 - delta
    if !dummy {
        for delta in [1u64, 9999, 10000, 10001, 1 << 20] {
            let total = 1 + rng.below(400_000);
            if total * 10000 < delta {
                continue;
            }
            let input = total * 10000 - delta;
            if input > u32::MAX as u64 {
                continue;
            }
            let mut w = base.clone();
            w.fee = 9999;
            w.input = input;
            w.out1 = rng.below(total + 1);
            w.out2 = total - w.out1;
            w.rebind_tree();
            out.push(case("fee:inequality", &format!("delta={}", delta), true, w, Expect::Unsat));
        }
        // fee = 0, total = in + 1 (delta = 10000)
        {
            let mut w = base.clone();
            w.fee = 0;
            w.input = rng.below(1 << 31);
            let total = w.input + 1;
            w.out1 = rng.below(total + 1);
            w.out2 = total - w.out1;
            w.rebind_tree();
            out.push(case("fee:inequality", "fee=0,total=in+1", true, w, Expect::Unsat));
        }
        // equality boundary delta = 0: accepting control
        {
            let total = 1 + rng.below(400_000);
            let mut w = base.clone();
            w.fee = 9999;
            w.input = total * 10000;
            if w.input <= u32::MAX as u64 {
                w.out1 = rng.below(total + 1);
                w.out2 = total - w.out1;
                w.rebind_tree();
                out.push(case("fee:inequality", "delta=0(control)", false, w, Expect::Sat));
            }
        }
        // maximal honest values: in = out1 = 2^32-1, fee 0 (control)
        {
            let mut w = base.clone();
            w.fee = 0;
            w.input = u32::MAX as u64;
            w.out1 = u32::MAX as u64;
            w.out2 = 0;
            w.rebind_tree();
            out.push(case("range:all", "u32::MAX(control)", false, w, Expect::Sat));
        }
    }
    out
}

pub fn run_c01(ctx: &Ctx) {
    ctx.set_rule(
        "base: honest leaf statement (depth quota 0..16, 1/4 dummies) evaluated Sat on the real leaf circuit; \
         attack: one scalar (asset,in,out1,out2,block number,tc_hi,tc_lo) replaced by a magnitude from {2^32,2^32+k,2^33-1,2^48±k,p-k,p-1,rand64}, \
         or fee in {10001,16383,16384,2^32-1,p-1,p-k}, or (o1+o2)*10000 = in*(10000-fee)+delta, all other clauses kept true in the field \
         (hashes/tree/header rebuilt by the reference); plus single-generator hint sweeps on a sample. \
         non-trivial = attacked case whose un-attacked twin was Sat in this run and whose only false clause is the attacked one; \
         distinct by (clause, magnitude, dummy?, depth).",
    );
    ctx.assume("Poseidon2 permutation of plonky2 is the trusted base of the reference hashes");
    ctx.assume("search, not proof: absence of a satisfying witness among explored assignments is evidence only");
    let cfg = DrvCfg {
        id: "C01",
        n_bases: ctx.tier.pick(640, 6000),
        sweep_every: ctx.tier.pick(400, 40),
        confirm_control_every: 8,
        validate_unsat_every: 40,
        dummy_share: (1, 4),
    };
    leafdrv::run(ctx, &cfg, &c01_attacks);
}

// ------------------------------------------------------------------ C02 -----

pub fn c02_attacks(rng: &mut Rng, base: &LeafW, _lc: &LeafCircuit) -> Vec<Case> {
    let mut out = vec![];
    if base.is_dummy_sentinel() {
        return out;
    }
    let s2 = rand_d4(rng);
    // nullifier from (s', c), address/leaf from (s, c): split secret targets
    {
        let mut w = base.clone();
        w.null_secret = s2;
        w.nullifier = refm::nullifier(&s2, w.null_tc[0], w.null_tc[1]);
        out.push(case("bind:secret-split", "null(s',c)", true, w, Expect::Unsat));
    }
    // nullifier from (s, c'): split count limbs
    for (i, nm) in [(0usize, "bind:tc_hi-split"), (1usize, "bind:tc_lo-split")] {
        let mut w = base.clone();
        w.null_tc[i] = (w.null_tc[i] + 1 + rng.below(1000)) & 0xFFFF_FFFF;
        w.nullifier = refm::nullifier(&w.null_secret, w.null_tc[0], w.null_tc[1]);
        out.push(case(nm, "null(s,c')", true, w, Expect::Unsat));
    }
    // (s', c')
    {
        let mut w = base.clone();
        w.null_secret = s2;
        w.null_tc = [rng.u32() as u64, rng.u32() as u64];
        w.nullifier = refm::nullifier(&s2, w.null_tc[0], w.null_tc[1]);
        out.push(case("bind:secret+tc-split", "null(s',c')", false, w, Expect::Unsat));
    }
    // recipient split: leaf pays X != WA(s), tree rebuilt over X
    {
        let mut w = base.clone();
        w.leaf_to = rand_d4(rng);
        w.rebind_tree();
        out.push(case("bind:account-split", "leaf.to=X,ua=WA(s)", true, w, Expect::Unsat));
    }
    // recipient not derived from the secret (both sides X)
    {
        let mut w = base.clone();
        let x = rand_d4(rng);
        w.leaf_to = x;
        w.ua_account = x;
        w.rebind_tree();
        out.push(case("bind:address-derivation", "to=X!=WA(s)", true, w, Expect::Unsat));
    }
    // recipient differs from WA(s) by a structured vector (split and unsplit)
    for split in [true, false] {
        let mut w = base.clone();
        let x = refm::add4(&w.ua_account, &refm::structured_delta(rng));
        w.leaf_to = x;
        if !split {
            w.ua_account = x;
        }
        w.rebind_tree();
        out.push(case(if split { "bind:account-split" } else { "bind:address-derivation" }, "structured-delta", true, w, Expect::Unsat));
    }
    // address from single hash / other salt
    {
        let mut w = base.clone();
        let mut pre = refm::salt_wormhole();
        pre.extend_from_slice(&w.ua_secret);
        let x = refm::h(&pre);
        w.leaf_to = x;
        w.ua_account = x;
        w.rebind_tree();
        out.push(case("bind:address-derivation", "single-hash", true, w, Expect::Unsat));
    }
    // public nullifier variants (no split)
    let s = base.null_secret;
    let (hi, lo) = (base.null_tc[0], base.null_tc[1]);
    let mut variants: Vec<(&str, D4)> = vec![];
    variants.push(("random", rand_d4(rng)));
    {
        let mut pre = refm::salt_nullifier();
        pre.extend_from_slice(&s);
        pre.push(hi);
        pre.push(lo);
        variants.push(("single-hash", refm::h(&pre)));
    }
    if hi != lo {
        variants.push(("swapped-limbs", refm::nullifier(&s, lo, hi)));
    }
    {
        let mut pre = refm::salt_wormhole();
        pre.extend_from_slice(&s);
        pre.push(hi);
        pre.push(lo);
        variants.push(("other-salt", refm::h(&refm::h(&pre))));
    }
    {
        let mut pre = s.to_vec();
        pre.push(hi);
        pre.push(lo);
        variants.push(("no-salt", refm::h(&refm::h(&pre))));
    }
    {
        let mut n = base.nullifier;
        let i = rng.usize(4);
        n[i] = refm::fadd(n[i], 1);
        variants.push(("limb+1", n));
    }
    {
        // count + 1
        variants.push(("count+1", refm::nullifier(&s, hi, (lo + 1) & 0xFFFF_FFFF)));
    }
    for _ in 0..3 {
        // differs from the true nullifier by an algebraically structured vector
        variants.push(("structured-delta", refm::add4(&base.nullifier, &refm::structured_delta(rng))));
    }
    for (vn, n) in variants {
        if n == base.nullifier {
            continue;
        }
        let mut w = base.clone();
        w.nullifier = n;
        out.push(case("bind:nullifier-value", vn, true, w, Expect::Unsat));
    }
    out
}

pub fn run_c02(ctx: &Ctx) {
    ctx.set_rule(
        "base: honest non-dummy leaf statement whose nullifier/address come from the reference H(H(salt||...)) (so a drifted formula fails the control); \
         attack: nullifier computed from (s',c)/(s,c')/(s',c') with different values assigned to the nullifier-side and address/leaf-side targets, \
         recipient in the leaf != WA(s) with the tree rebuilt, or the public nullifier replaced by random/single-hash/swapped-limbs/other-salt/no-salt/limb+1/count+1; \
         plus hint sweeps. non-trivial = attacked case with Sat twin, tree and header valid for the leaf actually used; distinct by (clause, variant, depth).",
    );
    ctx.assume("Poseidon2 permutation of plonky2 is the trusted base of the reference hashes");
    let cfg = DrvCfg {
        id: "C02",
        n_bases: ctx.tier.pick(1280, 12000),
        sweep_every: ctx.tier.pick(400, 40),
        confirm_control_every: 16,
        validate_unsat_every: 40,
        dummy_share: (0, 1),
    };
    leafdrv::run(ctx, &cfg, &c02_attacks);
}

// ------------------------------------------------------------------ C03 -----

/// Fold with the circuit's behaviour for an out-of-range position at `lvl`
/// (no slot selects the running hash): parent = H(s0,s1,s2,s2).
fn forged_root(w: &LeafW, lvl: usize) -> D4 {
    let d = w.active_depth();
    let mut cur = w.ref_leaf_hash();
    for l in 0..d {
        let s = &w.siblings[l];
        if l == lvl {
            cur = refm::node_hash(&[s[0], s[1], s[2], s[2]]);
        } else {
            cur = refm::node_hash(&refm::insert_at(&cur, s, w.positions[l] as usize));
        }
    }
    cur
}

pub fn c03_attacks(rng: &mut Rng, base: &LeafW, _lc: &LeafCircuit) -> Vec<Case> {
    let mut out = vec![];
    if base.is_dummy_sentinel() {
        return out;
    }
    let d = base.active_depth();
    // header tree root unrelated to the Merkle root (header binding intact)
    {
        let mut w = base.clone();
        w.header.tree_root = rand_d4(rng);
        w.block_hash = refm::block_hash(&w.header);
        out.push(case("bind:header-root", "header.root=random", true, w, Expect::Unsat));
    }
    {
        // root of another valid tree (other leaf amount), header commits to it, path proves base leaf
        let mut other = base.clone();
        other.input = (other.input + 1) & 0xFFFF_FFFF;
        let r2 = other.ref_root();
        let mut w = base.clone();
        w.header.tree_root = r2;
        w.block_hash = refm::block_hash(&w.header);
        out.push(case("bind:header-root", "header.root=other-tree", true, w, Expect::Unsat));
    }
    // header commits to root + structured delta (header binding intact, Merkle target = true root)
    for _ in 0..2 {
        let mut w = base.clone();
        w.header.tree_root = refm::add4(&w.root_hash, &refm::structured_delta(rng));
        w.block_hash = refm::block_hash(&w.header);
        out.push(case("bind:header-root", "header.root=root+structured-delta", true, w, Expect::Unsat));
    }
    // both roots equal R + structured delta: the path folds to R, not to R'
    for _ in 0..2 {
        let mut w = base.clone();
        let r = refm::add4(&w.root_hash, &refm::structured_delta(rng));
        w.root_hash = r;
        w.header.tree_root = r;
        w.block_hash = refm::block_hash(&w.header);
        out.push(case("bind:merkle-root", "root=root+structured-delta", true, w, Expect::Unsat));
    }
    // public block hash = true hash + structured delta
    for _ in 0..2 {
        let mut w = base.clone();
        w.block_hash = refm::add4(&w.block_hash, &refm::structured_delta(rng));
        if !refm::is_zero4(&w.block_hash) {
            out.push(case("header:block-hash", "hash+structured-delta", true, w, Expect::Unsat));
        }
    }
    // both roots equal R' but the path folds elsewhere
    {
        let mut w = base.clone();
        let r = rand_d4(rng);
        w.root_hash = r;
        w.header.tree_root = r;
        w.block_hash = refm::block_hash(&w.header);
        out.push(case("bind:merkle-root", "root=random", true, w, Expect::Unsat));
    }
    if d > 0 {
        let lvl = rng.usize(d);
        // out-of-range position with the forged-membership continuation
        for (pn, pv) in [
            ("4", 4u64),
            ("5", 5),
            ("6", 6),
            ("7", 7),
            ("2^32", 1 << 32),
            ("p-1", P - 1),
        ] {
            let mut w = base.clone();
            w.positions[lvl] = pv;
            let r = forged_root(&w, lvl);
            w.root_hash = r;
            w.header.tree_root = r;
            w.block_hash = refm::block_hash(&w.header);
            out.push(case("merkle:position-range", &format!("pos={}", pn), true, w, Expect::Unsat));
        }
        // wrong but in-range position, root unchanged
        {
            let mut w = base.clone();
            w.positions[lvl] = (w.positions[lvl] + 1 + rng.below(3)) % 4;
            out.push(case("merkle:position-value", "pos'!=pos", true, w, Expect::Unsat));
        }
        // one sibling limb changed
        {
            let mut w = base.clone();
            let s = rng.usize(3);
            let e = rng.usize(4);
            w.siblings[lvl][s][e] = refm::fadd(w.siblings[lvl][s][e], 1 + rng.below(5));
            out.push(case("merkle:sibling", "limb+k", true, w, Expect::Unsat));
        }
        // depth field shorter than the path
        {
            let mut w = base.clone();
            w.depth = (d - 1) as u64;
            out.push(case("merkle:depth", "depth-1", true, w, Expect::Unsat));
        }
    }
    if d < 16 {
        let mut w = base.clone();
        w.depth = (d + 1) as u64;
        out.push(case("merkle:depth", "depth+1", true, w, Expect::Unsat));
    }
    // depth 17..31 with the genuine <=16 level path: recorded only (statement still satisfies C03)
    if d == 16 {
        let mut w = base.clone();
        w.depth = 17 + rng.below(15);
        out.push(case("merkle:depth", "17..31(record)", false, w, Expect::Record));
    }
    {
        let mut w = base.clone();
        w.depth = 32 + rng.below(1000);
        out.push(case("merkle:depth", ">=32", false, w, Expect::Unsat));
    }
    // leaf preimage order permuted: tree contains H(permuted) instead
    for (vn, perm) in [("tc-swapped", 0), ("asset<->amount", 1), ("count-first", 2)] {
        let w0 = base.clone();
        let to = w0.leaf_to;
        let (hi, lo, a, i) = (w0.leaf_tc[0], w0.leaf_tc[1], w0.asset, w0.input);
        let pre: Vec<u64> = match perm {
            0 => [to.to_vec(), vec![lo, hi, a, i]].concat(),
            1 => [to.to_vec(), vec![hi, lo, i, a]].concat(),
            _ => [vec![hi, lo], to.to_vec(), vec![a, i]].concat(),
        };
        let honest_pre: Vec<u64> = [to.to_vec(), vec![hi, lo, a, i]].concat();
        if pre == honest_pre {
            continue;
        }
        let lh = refm::h(&pre);
        let mut w = base.clone();
        let r = refm::merkle_fold(&lh, &w.siblings[..d], &w.positions[..d]);
        w.root_hash = r;
        w.header.tree_root = r;
        w.block_hash = refm::block_hash(&w.header);
        out.push(case("leaf:preimage-order", vn, true, w, Expect::Unsat));
    }
    // header preimage order permuted on the hash side only
    {
        let hd = &base.header;
        let variants: Vec<(&str, Vec<u64>)> = vec![
            (
                "state<->extrinsics",
                [hd.parent.to_vec(), vec![hd.number], hd.extrinsics_root.to_vec(), hd.state_root.to_vec(), hd.tree_root.to_vec(), hd.digest.clone()].concat(),
            ),
            (
                "number-first",
                [vec![hd.number], hd.parent.to_vec(), hd.state_root.to_vec(), hd.extrinsics_root.to_vec(), hd.tree_root.to_vec(), hd.digest.clone()].concat(),
            ),
            (
                "tree-root-last",
                [hd.parent.to_vec(), vec![hd.number], hd.state_root.to_vec(), hd.extrinsics_root.to_vec(), hd.digest.clone(), hd.tree_root.to_vec()].concat(),
            ),
            (
                "no-digest",
                [hd.parent.to_vec(), vec![hd.number], hd.state_root.to_vec(), hd.extrinsics_root.to_vec(), hd.tree_root.to_vec()].concat(),
            ),
        ];
        for (vn, pre) in variants {
            let bh = refm::h(&pre);
            if bh == base.block_hash {
                continue;
            }
            let mut w = base.clone();
            w.block_hash = bh;
            out.push(case("header:preimage-order", vn, true, w, Expect::Unsat));
        }
    }
    // single header field changed after hashing
    {
        let mut w = base.clone();
        match rng.below(5) {
            0 => w.header.parent[rng.usize(4)] = rng.felt(),
            1 => w.header.state_root[rng.usize(4)] = rng.felt(),
            2 => w.header.extrinsics_root[rng.usize(4)] = rng.felt(),
            3 => {
                let i = rng.usize(28);
                w.header.digest[i] = (w.header.digest[i] + 1) & 0xFFFF_FFFF;
            }
            _ => w.header.number = (w.header.number + 1) & 0xFFFF_FFFF,
        }
        out.push(case("header:field-after-hash", "one-field", true, w, Expect::Unsat));
    }
    // block hash limb changed
    {
        let mut w = base.clone();
        let i = rng.usize(4);
        w.block_hash[i] = refm::fadd(w.block_hash[i], 1);
        out.push(case("header:block-hash", "limb+1", true, w, Expect::Unsat));
    }
    // inactive-level garbage must not matter (accepting control)
    if d < 16 {
        let mut w = base.clone();
        for l in d..16 {
            w.siblings[l] = [rand_d4(rng), rand_d4(rng), rand_d4(rng)];
            w.positions[l] = rng.below(4);
        }
        out.push(case("merkle:inactive-garbage", "control", false, w, Expect::Sat));
    }
    out
}

pub fn run_c03(ctx: &Ctx) {
    ctx.set_rule(
        "base: honest non-dummy statement over a generated 4-ary path (every depth 0..16 by quota) and generated header, roots/hashes by the reference fold; \
         attack: header tree root != Merkle root (random / other tree), out-of-range position {4..7,2^32,p-1} with the forged H(s0,s1,s2,s2) continuation, \
         wrong in-range position, sibling limb change, depth +-1 / >=32, permuted leaf or header preimage order, header field or block-hash limb changed after hashing; \
         inactive-level garbage as accepting control; depth 17..31 recorded only. non-trivial = attacked case with Sat twin and a single false clause; distinct by (attack, variant, depth).",
    );
    ctx.assume("Poseidon2 permutation of plonky2 is the trusted base of the reference hashes");
    let cfg = DrvCfg {
        id: "C03",
        n_bases: ctx.tier.pick(1280, 12000),
        sweep_every: ctx.tier.pick(500, 50),
        confirm_control_every: 17,
        validate_unsat_every: 40,
        dummy_share: (0, 1),
    };
    leafdrv::run(ctx, &cfg, &c03_attacks);
}

// ------------------------------------------------------------------ C04 -----

fn garble(rng: &mut Rng, w: &mut LeafW, which: usize) -> &'static str {
    match which {
        0 => {
            w.nullifier = rand_d4(rng);
            "garbage-nullifier"
        }
        1 => {
            // header garbage: change a header field without touching the hash
            w.header.parent = rand_d4(rng);
            "garbage-header"
        }
        _ => {
            // tree-root binding garbage: header commits to R' and the Merkle target is R',
            // header binding and header-root == merkle-root stay true, the path folds elsewhere
            let e = rng.usize(4);
            w.root_hash[e] = refm::fadd(w.root_hash[e], 1 + rng.below(9));
            w.header.tree_root = w.root_hash;
            w.block_hash = refm::block_hash(&w.header);
            "garbage-root"
        }
    }
}

pub fn c04_attacks(rng: &mut Rng, base: &LeafW, lc: &LeafCircuit) -> Vec<Case> {
    let mut out = vec![];
    let flag_t = lc.targets.zk_merkle_proof.is_not_dummy.target;
    if base.is_dummy_sentinel() {
        // full sentinel with arbitrary garbage everywhere: accepting control
        let mut w = base.clone();
        w.nullifier = rand_d4(rng);
        w.header.parent = rand_d4(rng);
        w.header.tree_root = rand_d4(rng);
        w.root_hash = rand_d4(rng);
        // (the address derivation is unconditional and stays true)
        out.push(case("sentinel:full", "garbage-everything(control)", false, w.clone(), Expect::Sat));
        // dummies still obey range / fee rules
        for (nm, m) in [("2^32", 1u64 << 32), ("p-1", P - 1)] {
            let mut a = w.clone();
            a.asset = m;
            out.push(case("dummy:range:asset", nm, true, a, Expect::Unsat));
            let mut b = w.clone();
            b.input = m;
            out.push(case("dummy:range:input", nm, false, b, Expect::Unsat));
            let mut c = w.clone();
            c.header.number = m;
            out.push(case("dummy:range:block_number", nm, true, c, Expect::Unsat));
        }
        {
            let mut a = w.clone();
            a.fee = 10001 + rng.below(5000);
            out.push(case("dummy:fee-bound", "fee>10000", true, a, Expect::Unsat));
        }
        // zero block hash but non-zero outputs, garbage in one binding
        for which in 0..3 {
            for outs in [(1u64, 0u64), (0, 1), (3, 4)] {
                let mut a = base.clone();
                a.fee = 0;
                a.input = 100;
                a.out1 = outs.0;
                a.out2 = outs.1;
                let g = match which {
                    0 => {
                        a.nullifier = rand_d4(rng);
                        "garbage-nullifier"
                    }
                    1 => {
                        a.header.parent = rand_d4(rng);
                        "garbage-header"
                    }
                    _ => {
                        a.root_hash = rand_d4(rng);
                        a.header.tree_root = a.root_hash;
                        "garbage-root"
                    }
                };
                // block hash stays all-zero: bindings can never hold => must be Unsat
                out.push(case(
                    "sentinel:bh=0,outs!=0",
                    &format!("{}:outs={:?}", g, outs),
                    true,
                    a,
                    Expect::Unsat,
                ));
            }
        }
        // witnessed flag: claim "dummy" on zero hash + non-zero outputs
        {
            let mut a = base.clone();
            a.fee = 0;
            a.input = 10;
            a.out1 = 1;
            a.nullifier = rand_d4(rng);
            let mut c = case("sentinel:flag-free", "bh=0,outs!=0,is_not_dummy:=0", true, a, Expect::Unsat);
            c.extra.push((flag_t, f(0)));
            out.push(c);
        }
        return out;
    }
    // real base: non-zero block hash, zero outputs, garbage in exactly one binding
    for which in 0..3 {
        let mut w = base.clone();
        w.out1 = 0;
        w.out2 = 0;
        let g = garble(rng, &mut w, which);
        out.push(case("sentinel:bh!=0,outs=0", g, true, w, Expect::Unsat));
    }
    // real base with outputs, garbage in exactly one binding
    for which in 0..3 {
        let mut w = base.clone();
        let g = garble(rng, &mut w, which);
        out.push(case("sentinel:bh!=0,outs!=0", g, true, w, Expect::Unsat));
    }
    // block hash with exactly one non-zero limb and zero outputs: not a dummy, header binding must fail
    for limb in 0..4 {
        for (vn, v) in [("1", 1u64), ("p-1", P - 1), ("2^32", 1 << 32)] {
            let mut w = base.clone();
            w.out1 = 0;
            w.out2 = 0;
            w.block_hash = [0; 4];
            w.block_hash[limb] = v;
            out.push(case(
                "sentinel:one-limb-block-hash",
                &format!("limb{}={}", limb, vn),
                true,
                w,
                Expect::Unsat,
            ));
        }
    }
    // block hash that is non-zero but algebraically "close to zero" (defeats folded zero tests)
    for _ in 0..3 {
        let mut w = base.clone();
        w.out1 = 0;
        w.out2 = 0;
        w.block_hash = refm::structured_delta(rng);
        out.push(case("sentinel:structured-block-hash", "limbs from {+-1,+-2^48,+-2^32,+-2^24,..}", true, w, Expect::Unsat));
    }
    // witnessed flag on a real statement with a garbage binding
    for v in [0u64, 2] {
        let mut w = base.clone();
        w.nullifier = rand_d4(rng);
        let mut c = case(
            "sentinel:flag-free",
            &format!("real+garbage-nullifier,is_not_dummy:={}", v),
            true,
            w,
            Expect::Unsat,
        );
        c.extra.push((flag_t, f(v)));
        out.push(c);
    }
    // consistent flag assignment is accepted (control: the target is connected, not free)
    {
        let mut c = case("sentinel:flag-free", "real,is_not_dummy:=1(control)", false, base.clone(), Expect::Sat);
        c.extra.push((flag_t, f(1)));
        out.push(c);
    }
    out
}

pub fn run_c04(ctx: &Ctx) {
    ctx.set_rule(
        "four sentinel combinations x garbage in exactly one of {nullifier, header, tree root}: (bh=0,outs!=0), (bh!=0,outs=0), (bh!=0,outs!=0), \
         block hash with exactly one non-zero limb in {1,p-1,2^32} and zero outputs must be Unsat; full sentinel with garbage everywhere must be Sat (control); \
         the is_not_dummy target assigned {0,1,2} directly; dummies with out-of-range asset/input/block number or fee>10000 must be Unsat; \
         hint sweeps (all equality flags feeding the dummy decision) on a sample. non-trivial = garbage in exactly one binding with the rest valid; distinct by (combination, garbage kind, depth).",
    );
    ctx.assume("Poseidon2 permutation of plonky2 is the trusted base of the reference hashes");
    let cfg = DrvCfg {
        id: "C04",
        n_bases: ctx.tier.pick(1280, 12000),
        sweep_every: ctx.tier.pick(300, 30),
        confirm_control_every: 17,
        validate_unsat_every: 40,
        dummy_share: (1, 3),
    };
    leafdrv::run(ctx, &cfg, &c04_attacks);
}

pub fn tier_note(_t: Tier) {}
