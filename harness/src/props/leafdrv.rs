//! Shared driver for C01–C04: metamorphic single-clause attacks on honest leaf
//! statements evaluated on the real `WormholeCircuit` through E1.

use plonky2::iop::target::Target;
use serde_json::{json, Value};
use zk_circuits_common::circuit::F;

use crate::engine::e1::{Outcome, Replace, Unsat};
use crate::engine::hints;
use crate::leaf::{HonestParams, LeafCircuit, LeafW};
use crate::util::rng::Rng;
use crate::util::{fnv_str, Ctx, Tally};

#[derive(Clone, Copy, Debug, PartialEq, Eq)]
pub enum Expect {
    Sat,
    Unsat,
    /// Evaluated and recorded only (the statement does not decide it).
    Record,
}

pub struct Case {
    /// clause identifier, becomes the violation signature
    pub clause: String,
    /// magnitude / variant class (for distinctness)
    pub variant: String,
    /// only the attacked clause is false in the field
    pub pure_single_clause: bool,
    pub w: LeafW,
    /// extra assignments (e.g. the is_not_dummy target)
    pub extra: Vec<(Target, F)>,
    pub expect: Expect,
}

pub struct DrvCfg {
    pub id: &'static str,
    pub n_bases: usize,
    pub sweep_every: usize,
    pub confirm_control_every: usize,
    pub validate_unsat_every: usize,
    pub dummy_share: (u64, u64),
}

pub type AttackGen = dyn Fn(&mut Rng, &LeafW, &LeafCircuit) -> Vec<Case> + Sync;

pub fn case_json(c: &Case) -> Value {
    json!({"clause": c.clause, "variant": c.variant, "pure_single_clause": c.pure_single_clause,
           "expect": format!("{:?}", c.expect), "witness": c.w.to_json(),
           "extra": c.extra.iter().map(|(t, v)| json!([format!("{:?}", t), plonky2::field::types::PrimeField64::to_canonical_u64(v)])).collect::<Vec<_>>()})
}

/// Decide one case against the real circuit. Returns true when a violation was recorded.
pub fn decide_case(lc: &LeafCircuit, c: &Case, t: &mut Tally, id: &str) -> Outcome {
    let mut inputs = c.w.fill(&lc.targets);
    inputs.extend(c.extra.iter().cloned());
    let out = lc.circuit.eval(&inputs, &[]);
    t.eval();
    match (c.expect, out.is_sat()) {
        (Expect::Unsat, true) => {
            // candidate violation: confirm through the real prover + verifier
            match lc.circuit.confirm(&inputs, &[]) {
                Ok(proof) => {
                    let pis: Vec<u64> = proof
                        .public_inputs
                        .iter()
                        .map(plonky2::field::types::PrimeField64::to_canonical_u64)
                        .collect();
                    t.violation(
                        format!("{}:{}", id, c.clause),
                        format!(
                            "leaf circuit satisfied (real proof verifies) for a statement violating clause '{}' variant '{}'; public inputs {:?}",
                            c.clause, c.variant, pis
                        ),
                        json!({"kind": "leaf_attack", "case": case_json(c)}),
                    );
                }
                Err(e) => t.infra(format!(
                    "evaluator said Sat but the real prover/verifier disagreed ({}) on clause {} variant {}",
                    e, c.clause, c.variant
                )),
            }
        }
        (Expect::Sat, false) => {
            t.infra(format!(
                "accepting control '{}:{}' not satisfiable: {:?}",
                c.clause, c.variant, out
            ));
        }
        _ => {}
    }
    out
}

pub fn run(ctx: &Ctx, cfg: &DrvCfg, attacks: &AttackGen) {
    let workers = ctx.n_workers();
    let per = cfg.n_bases.div_ceil(workers);
    ctx.par(workers, |wi, t| {
        let lc = match LeafCircuit::build() {
            Ok(l) => l,
            Err(e) => {
                t.infra(format!("leaf circuit build failed: {}", e));
                return;
            }
        };
        let mut rng = Rng::fork(ctx.seed, wi as u64);
        let hint_gens = hints::hint_gens(&lc.circuit);
        for bi in 0..per {
            // depth quota: cycle through 0..=16
            let depth = (wi * per + bi) % 17;
            let dummy = rng.chance(cfg.dummy_share.0, cfg.dummy_share.1);
            let hp = HonestParams {
                depth: Some(depth),
                dummy,
                exact_fee_boundary: rng.chance(1, 5),
                max_amounts: rng.chance(1, 10),
                ..Default::default()
            };
            let base = LeafW::honest(&mut rng, &hp);
            // positive control: the un-attacked twin must be Sat
            let inputs = base.fill(&lc.targets);
            let out = lc.circuit.eval(&inputs, &[]);
            t.eval();
            if !out.is_sat() {
                t.infra(format!("honest base not Sat: {:?} base={}", out, base.brief()));
                continue;
            }
            if let Some(p) = out.pis() {
                if p != base.statement_pis().as_slice() {
                    t.infra("honest base public inputs differ from the reference layout".to_string());
                }
            }
            t.class(if dummy { "base:dummy" } else { "base:real" });
            if (wi * per + bi) % cfg.confirm_control_every == 0 {
                match lc.circuit.confirm(&inputs, &[]) {
                    Ok(_) => {
                        t.traces_validated += 1;
                        t.class("control:real-proof-verified");
                    }
                    Err(e) => t.infra(format!("honest control failed in the real prover: {}", e)),
                }
            }

            let cases = attacks(&mut rng, &base, &lc);
            for (ci, c) in cases.iter().enumerate() {
                let out = decide_case(&lc, c, t, cfg.id);
                let cls = format!(
                    "{}|{}|{}|{}",
                    c.clause,
                    c.variant,
                    if dummy { "dummy" } else { "real" },
                    out.short()
                );
                t.sample_if_new_class(&cls, || {
                    json!({"clause": c.clause, "variant": c.variant, "expect": format!("{:?}", c.expect),
                           "outcome": out.short(), "statement": c.w.brief()})
                });
                t.class(&cls);
                if c.expect == Expect::Unsat && c.pure_single_clause {
                    t.nontrivial(fnv_str(&format!(
                        "{}|{}|{}|d{}",
                        c.clause, c.variant, dummy, depth
                    )));
                }
                // evaluator validation: gate-level Unsat must also fail in the real prover
                if let Outcome::Unsat(Unsat::Gate { .. }) = &out {
                    if (bi * 31 + ci) % cfg.validate_unsat_every == 0 {
                        let mut inp = c.w.fill(&lc.targets);
                        inp.extend(c.extra.iter().cloned());
                        match lc.circuit.confirm(&inp, &[]) {
                            Ok(_) => t.infra(format!(
                                "evaluator said gate-Unsat but the real prover produced a verifying proof ({} {})",
                                c.clause, c.variant
                            )),
                            Err(_) => t.traces_validated += 1,
                        }
                    }
                }
                // hint layer on a sample of attacked cases
                if c.expect == Expect::Unsat
                    && cfg.sweep_every > 0
                    && (bi * 17 + ci) % cfg.sweep_every == 0
                {
                    sweep_case(&lc, c, &hint_gens, &mut rng, t, cfg.id);
                }
            }
        }
    });
}

/// Full single-generator hint sweep on one attacked case: no alternative may be Sat.
pub fn sweep_case(
    lc: &LeafCircuit,
    c: &Case,
    hint_gens: &[usize],
    rng: &mut Rng,
    t: &mut Tally,
    id: &str,
) {
    let mut inputs = c.w.fill(&lc.targets);
    inputs.extend(c.extra.iter().cloned());
    let r = lc.circuit.run(&inputs, &[], true, false);
    let Some(w) = r.witness else { return };
    let mut hits: Vec<(usize, hints::Alt)> = vec![];
    let mut plausible = 0u64;
    let n = hints::sweep(&lc.circuit, &inputs, &[], &w, hint_gens, rng, |h| {
        if h.alt.numerically_plausible {
            plausible += 1;
        }
        if h.outcome.is_sat() {
            hits.push((h.gen, h.alt));
        }
    });
    drop(w);
    t.evals(n as u64);
    t.count("hint_alternatives_evaluated", n as u64);
    t.count("hint_alternatives_numerically_plausible", plausible);
    t.class("hint-sweep");
    for (gi, alt) in hits {
        let repl = vec![Replace {
            gen: gi,
            values: alt.values.clone(),
        }];
        match lc.circuit.confirm(&inputs, &repl) {
            Ok(_) => t.violation(
                format!("{}:{}:hint", id, c.clause),
                format!(
                    "hint override {} on generator {} ({}) makes the attacked statement (clause {}) provable",
                    alt.desc, gi, lc.circuit.gen_ids[gi], c.clause
                ),
                json!({"kind": "leaf_attack_hint", "case": case_json(c), "gen": gi, "alt": alt.desc,
                       "values": alt.values.iter().map(plonky2::field::types::PrimeField64::to_canonical_u64).collect::<Vec<_>>()}),
            ),
            Err(e) => t.infra(format!(
                "hint sweep: evaluator Sat but real prover disagreed: {} (gen {} alt {})",
                e, gi, alt.desc
            )),
        }
    }
}

/// Replay a stored leaf_attack case; true when the violation reproduces.
pub fn replay(case: &Value) -> Result<bool, String> {
    let lc = LeafCircuit::build()?;
    let cj = &case["case"];
    let w = LeafW::from_json(&cj["witness"]).ok_or("bad witness json")?;
    let mut inputs = w.fill(&lc.targets);
    if let Some(extra) = cj["extra"].as_array() {
        if !extra.is_empty() {
            // only the is_not_dummy target is ever used as an extra assignment
            let v = extra[0][1].as_u64().unwrap_or(0);
            inputs.push((
                lc.targets.zk_merkle_proof.is_not_dummy.target,
                crate::engine::e1::f(v),
            ));
        }
    }
    let mut repl = vec![];
    if case["kind"] == "leaf_attack_hint" {
        let gi = case["gen"].as_u64().ok_or("gen")? as usize;
        let vals: Vec<F> = case["values"]
            .as_array()
            .ok_or("values")?
            .iter()
            .map(|x| crate::engine::e1::f(x.as_u64().unwrap_or(0)))
            .collect();
        repl.push(Replace { gen: gi, values: vals });
    }
    Ok(lc.circuit.confirm(&inputs, &repl).is_ok())
}
