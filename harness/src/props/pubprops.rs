//! C12, C13 (public-batch wrapper) and C36 (two-layer chain) on wrapper-only circuits.

use serde_json::json;
use std::collections::BTreeMap;

use crate::pbatch::{self, LeafStmt, PrivCircuit};
use crate::props::privprops;
use crate::pubbatch::{self, inners_json, Inner, PubCircuit};
use crate::refm::D4;
use crate::util::rng::Rng;
use crate::util::{fnv_u64s, Ctx, Tally};
use zk_circuits_common::circuit::wormhole_public_batch_circuit_config;

#[derive(Clone, Copy, PartialEq, Eq, Debug)]
pub enum Which {
    C12,
    C13,
}

pub fn build_pub_circuits(
    shapes: &[(usize, usize)],
    privs: &BTreeMap<usize, PrivCircuit>,
) -> Result<BTreeMap<(usize, usize), PubCircuit>, String> {
    let results: Vec<Result<PubCircuit, String>> = std::thread::scope(|s| {
        let hs: Vec<_> = shapes
            .iter()
            .map(|&(m, n)| {
                let common = &privs[&n].circuit.data.common;
                s.spawn(move || PubCircuit::build(m, n, common, wormhole_public_batch_circuit_config()))
            })
            .collect();
        hs.into_iter().map(|h| h.join().unwrap_or_else(|_| Err("build thread panicked".into()))).collect()
    });
    let mut out = BTreeMap::new();
    for r in results {
        let pc = r?;
        out.insert((pc.m, pc.n), pc);
    }
    Ok(out)
}

fn fp(addr: &D4, inners: &[Inner]) -> u64 {
    let mut v = addr.to_vec();
    for i in inners {
        v.extend_from_slice(&i.pis);
    }
    fnv_u64s(&v)
}

pub fn decide(pc: &PubCircuit, addr: &D4, inners: &[Inner], which: Which, rng: &mut Rng, t: &mut Tally) {
    let inputs = pc.fill(addr, inners);
    let out = pc.circuit.eval(&inputs, &[]);
    t.eval();
    let r = pubbatch::reference(addr, inners);
    let m = pc.m;
    let n_dummy = inners.iter().filter(|i| i.is_dummy()).count();
    t.class(&format!(
        "M={},N={}|dummies={}|{}",
        m,
        pc.n,
        n_dummy.min(3),
        if r.accept { "accept".to_string() } else { format!("reject:{}", r.failing[0]) }
    ));
    let case = |kind: &str| json!({"kind": kind, "m": m, "n": pc.n, "batch": inners_json(addr, inners)});
    match which {
        Which::C12 => {
            if let Some(pis) = out.pis() {
                if r.accept && pis != r.output.as_slice() {
                    let pos = pis.iter().zip(r.output.iter()).position(|(a, b)| a != b);
                    match pc.circuit.confirm_ok(&inputs, &[]) {
                        Ok(_) => t.violation(
                            format!("C12:output-mismatch:{}", pub_region(pos.unwrap_or(usize::MAX), m, pc.n)),
                            format!("public-batch output differs from order-preserving forwarding at index {:?} (got {:?}, expected {:?}; lengths {} vs {})",
                                    pos, pos.map(|p| pis[p]), pos.map(|p| r.output[p]), pis.len(), r.output.len()),
                            case("pub_output"),
                        ),
                        Err(e) => t.infra(format!("C12 mismatch but real prover disagreed: {}", e)),
                    }
                }
            }
            let dummy_not_last = inners.iter().enumerate().any(|(i, x)| x.is_dummy() && i + 1 < m);
            if r.accept && (dummy_not_last || m >= 3) {
                t.nontrivial(fp(addr, inners));
            }
        }
        Which::C13 => {
            if out.is_sat() != r.accept {
                let confirmed = pc.circuit.confirm_ok(&inputs, &[]);
                match (out.is_sat(), confirmed) {
                    (true, Ok(_)) => t.violation(
                        format!("C13:accepts:{}", r.failing[0]),
                        format!("public-batch wrapper satisfiable (real proof verifies) with inconsistent real inners: {:?}", r.failing),
                        case("pub_accept"),
                    ),
                    (false, Err(_)) => t.violation(
                        "C13:rejects-consistent".to_string(),
                        format!("public-batch wrapper unsatisfiable for metadata-consistent inners: {}", out.short()),
                        case("pub_reject"),
                    ),
                    (s, c) => t.infra(format!("C13 evaluator ({}) and real prover ({:?}) disagree", s, c.is_ok())),
                }
            }
            // metamorphic: slot contents / nullifiers / block numbers of any inner, and every field of a
            // dummy inner, never change the verdict
            let pools = pubbatch::make_pools(rng);
            let mut v2 = inners.to_vec();
            for x in v2.iter_mut() {
                if x.is_dummy() {
                    *x = pubbatch::gen_dummy_inner(rng, &pools, pc.n);
                } else {
                    let hdr: Vec<u64> = x.pis[..7].to_vec();
                    let mut fresh = pubbatch::gen_real_inner(rng, &pools, pc.n, 0, 0, 0);
                    fresh.pis[..7].copy_from_slice(&hdr);
                    fresh.pis[7] = rng.u32() as u64;
                    *x = fresh;
                }
            }
            let o2 = pc.circuit.eval(&pc.fill(addr, &v2), &[]);
            t.eval();
            if o2.is_sat() != out.is_sat() {
                t.violation(
                    "C13:content-dependent".to_string(),
                    format!("verdict changes when only slot contents/nullifiers/block numbers/dummy inners are rewritten: {} vs {}", out.short(), o2.short()),
                    json!({"kind": "pub_rewrite", "m": m, "n": pc.n, "batch": inners_json(addr, inners), "rewritten": inners_json(addr, &v2)}),
                );
            }
            if r.failing.len() == 1 || (r.accept && n_dummy > 0 && n_dummy < m) {
                t.nontrivial(fp(addr, inners));
            }
        }
    }
}

fn pub_region(pos: usize, m: usize, n: usize) -> &'static str {
    if pos < 4 {
        "address"
    } else if pos < 12 {
        "header"
    } else if pos < 12 + 10 * n * m {
        "exit-slots"
    } else if pos < 12 + 14 * n * m {
        "nullifiers"
    } else {
        "length"
    }
}

pub fn run(ctx: &Ctx, which: Which) {
    let small: Vec<(usize, usize)> = vec![(1, 1), (1, 2), (2, 1), (2, 2), (3, 2), (2, 3), (3, 3), (4, 4), (4, 1), (1, 4)];
    let big: Vec<(usize, usize)> = ctx.tier.pick(vec![(8, 8)], vec![(8, 8), (16, 4), (4, 16), (64, 1), (1, 64), (64, 2), (32, 32)]);
    let n_random = ctx.tier.pick(200_000usize, 2_000_000);
    let n_big = ctx.tier.pick(256usize, 5_000);
    ctx.set_rule(&format!(
        "wrapper-only public-batch circuit (repo builder via hook, free inner PIs) for (M,N) in {:?} + {:?}; (M,N)=(2,1),(2,2) over a reduced exhaustive inner domain; \
         {} random vectors of inner statements (real inners from small pools of blocks differing in one limb / assets / fees, dummy inners with arbitrary fields incl. non-zero slots, \
         each conjunct broken with moderate probability, differing block numbers under one hash), {} at larger shapes. Oracle: {}. Non-trivial: {}.",
        small, big, n_random, n_big,
        match which {
            Which::C12 => "accepted => public inputs equal the reference (address, first-real header or zeros, 2NM, per-inner slots then per-inner nullifiers, dummy inners zeroed)",
            Which::C13 => "Sat <=> real inners share (hash, asset, fee), both directions confirmed by the real prover; verdict invariant under rewriting slots/nullifiers/numbers/dummy inners",
        },
        match which {
            Which::C12 => "accepted with a dummy inner not in last position or M>=3",
            Which::C13 => "exactly one failing conjunct, or accepted with a mix of dummy and real inners",
        }
    ));
    ctx.assume("inner statements are generated directly in the private-batch output shape; C36 feeds real wrapper outputs");
    let mut all = small.clone();
    all.extend_from_slice(&big);
    let mut ns: Vec<usize> = all.iter().map(|s| s.1).collect();
    ns.sort();
    ns.dedup();
    let privs = match privprops::build_circuits(&ns, false) {
        Ok(p) => p,
        Err(e) => {
            ctx.tally.lock().unwrap().infra(format!("private wrapper build failed: {}", e));
            return;
        }
    };
    let pubs = match build_pub_circuits(&all, &privs) {
        Ok(p) => p,
        Err(e) => {
            ctx.tally.lock().unwrap().infra(format!("public wrapper build failed: {}", e));
            return;
        }
    };
    let workers = ctx.n_workers();
    ctx.par(workers, |wi, t| {
        let mut rng = Rng::fork(ctx.seed, wi as u64);
        // reduced exhaustive domain: per inner {dummy, blockA, blockB} x asset{0,1} x fee{1,2}
        if wi == 0 {
            for &(m, n) in &[(2usize, 1usize), (2, 2)] {
                let pc = &pubs[&(m, n)];
                let mut dom: Vec<Inner> = vec![];
                for bh in [[0u64; 4], [5, 6, 7, 8], [5, 6, 7, 9]] {
                    for asset in [0u64, 1] {
                        for fee in [1u64, 2] {
                            let mut pis = vec![2 * n as u64, asset, fee, bh[0], bh[1], bh[2], bh[3], 42];
                            for s in 0..2 * n {
                                pis.extend_from_slice(&[s as u64 + 1, 9, 9, 9, s as u64]);
                            }
                            for k in 0..n {
                                pis.extend_from_slice(&[k as u64 + 1, 2, 3, 4]);
                            }
                            pis.resize(21 * n + 8, 0);
                            dom.push(Inner { n, pis });
                        }
                    }
                }
                for a in &dom {
                    for b in &dom {
                        decide(pc, &[1, 2, 3, 4], &[a.clone(), b.clone()], which, &mut rng, t);
                        t.class("grid");
                    }
                }
            }
        }
        for c in 0..n_random.div_ceil(workers) {
            let (m, n) = small[(c + wi) % small.len()];
            let (addr, inners) = pubbatch::gen_inners(&mut rng, m, n);
            decide(&pubs[&(m, n)], &addr, &inners, which, &mut rng, t);
            if c < 2 {
                t.sample(json!({"m": m, "n": n, "address": addr, "inner_headers": inners.iter().map(|i| i.pis[..8].to_vec()).collect::<Vec<_>>()}));
            }
        }
        for c in 0..n_big.div_ceil(workers) {
            let (m, n) = big[(c + wi) % big.len()];
            let (addr, inners) = pubbatch::gen_inners(&mut rng, m, n);
            decide(&pubs[&(m, n)], &addr, &inners, which, &mut rng, t);
        }
    });
    shrink_violations(ctx, &pubs, &privs, which);
    ctx.extra("exhaustive_subspaces", json!(["(M,N)=(2,1) and (2,2) x {dummy,blockA,blockB} x asset{0,1} x fee{1,2} per inner"]));
}

/// Shrinks the first recorded case of every violation signature (C12, C13): inners are dropped
/// (the smaller public wrapper circuit is built on demand), then address limbs and inner public
/// inputs are simplified towards 0/1; a candidate is kept only when re-deciding it from scratch
/// reports the same signature. The shrunk case is confirmed by the real prover again.
fn shrink_violations(ctx: &Ctx, pubs: &BTreeMap<(usize, usize), PubCircuit>, privs: &BTreeMap<usize, PrivCircuit>, which: Which) {
    let mut vs = std::mem::take(&mut ctx.tally.lock().unwrap().violations);
    let mut extra: BTreeMap<(usize, usize), PubCircuit> = BTreeMap::new();
    let mut done: Vec<String> = vec![];
    let mut log = vec![];
    for v in vs.iter_mut() {
        if done.contains(&v.signature) || done.len() >= 6 {
            continue;
        }
        let Some((a0, i0)) = pubbatch::inners_from_json(&v.case["batch"]) else { continue };
        if i0.is_empty() {
            continue;
        }
        let n = i0[0].n;
        if !privs.contains_key(&n) {
            continue;
        }
        done.push(v.signature.clone());
        let sig = v.signature.clone();
        let evals = std::cell::Cell::new(0usize);
        let test = |a: &D4, inn: &[Inner], extra: &mut BTreeMap<(usize, usize), PubCircuit>| -> Option<crate::util::Violation> {
            let m = inn.len();
            if m == 0 {
                return None;
            }
            if !pubs.contains_key(&(m, n)) && !extra.contains_key(&(m, n)) {
                match build_pub_circuits(&[(m, n)], privs) {
                    Ok(mut b) => {
                        if let Some(pc) = b.remove(&(m, n)) {
                            extra.insert((m, n), pc);
                        }
                    }
                    Err(_) => return None,
                }
            }
            let pc = pubs.get(&(m, n)).or_else(|| extra.get(&(m, n)))?;
            evals.set(evals.get() + 1);
            let mut rng = Rng::fork(0x5eed_5a1e, m as u64);
            let mut t = Tally::new();
            decide(pc, a, inn, which, &mut rng, &mut t);
            t.violations.into_iter().find(|x| x.signature == sig)
        };
        crate::engine::e1::FAST_CONFIRM.with(|c| c.set(true));
        if test(&a0, &i0, &mut extra).is_none() {
            crate::engine::e1::FAST_CONFIRM.with(|c| c.set(false));
            continue;
        }
        let kept = crate::util::ddmin((0..i0.len()).collect::<Vec<usize>>(), |keep| {
            if keep.is_empty() || evals.get() > 200 {
                return false;
            }
            let inn: Vec<Inner> = keep.iter().map(|i| i0[*i].clone()).collect();
            test(&a0, &inn, &mut extra).is_some()
        });
        let kept = if kept.is_empty() { (0..i0.len()).collect() } else { kept };
        let i1: Vec<Inner> = kept.iter().map(|i| i0[*i].clone()).collect();
        let w = i1[0].pis.len();
        let mut flat: Vec<u64> = a0.to_vec();
        flat.extend(i1.iter().flat_map(|x| x.pis.clone()));
        let unflat = |f: &[u64]| -> (D4, Vec<Inner>) {
            let a = [f[0], f[1], f[2], f[3]];
            let inn = (0..i1.len()).map(|k| Inner { n, pis: f[4 + k * w..4 + (k + 1) * w].to_vec() }).collect();
            (a, inn)
        };
        let flat = crate::util::simplify_u64s(flat, |f| {
            if evals.get() > 1500 {
                return false;
            }
            let (a, inn) = unflat(f);
            test(&a, &inn, &mut extra).is_some()
        });
        let (a2, i2) = unflat(&flat);
        crate::engine::e1::FAST_CONFIRM.with(|c| c.set(false));
        if let Some(found) = test(&a2, &i2, &mut extra) {
            log.push(json!({"signature": sig, "inners": [i0.len(), i2.len()], "nonzero_values": [i0.iter().flat_map(|x| x.pis.clone()).filter(|x| *x != 0).count(), flat.iter().skip(4).filter(|x| **x != 0).count()], "re-decisions": evals.get()}));
            let mut case = found.case;
            case["shrunk_from_m"] = json!(i0.len());
            v.case = case;
            v.description = format!("{} [shrunk from M={} to M={}]", found.description, i0.len(), i2.len());
        }
    }
    ctx.tally.lock().unwrap().violations = vs;
    if !log.is_empty() {
        ctx.extra("shrinking", json!(log));
    }
}

pub fn replay(case: &serde_json::Value, which: Which) -> Result<bool, String> {
    let m = case["m"].as_u64().ok_or("m")? as usize;
    let n = case["n"].as_u64().ok_or("n")? as usize;
    let (addr, inners) = pubbatch::inners_from_json(&case["batch"]).ok_or("batch")?;
    let privs = privprops::build_circuits(&[n], false)?;
    let pubs = build_pub_circuits(&[(m, n)], &privs)?;
    let mut t = Tally::new();
    for s in 0..8 {
        let mut rng = Rng::new(s);
        decide(&pubs[&(m, n)], &addr, &inners, which, &mut rng, &mut t);
    }
    Ok(!t.violations.is_empty())
}

// ---------------------------------------------------------------- C36 -----

pub fn run_c36(ctx: &Ctx) {
    let shapes: Vec<(usize, usize)> = ctx.tier.pick(
        vec![(1, 1), (2, 2), (3, 2), (2, 3), (4, 4), (3, 4)],
        vec![(1, 1), (2, 2), (3, 2), (2, 3), (4, 4), (3, 4), (8, 4), (4, 8), (8, 8)],
    );
    let n_chains = ctx.tier.pick(40_000usize, 400_000);
    ctx.set_rule(
        "a compatible set of real leaf statements (one block/asset/fee, distinct nullifiers, accounts from a small pool so groups form within and across batches), \
         split into M inner batches of capacity N (some empty => all-dummy inner, some part-filled => dummy leaves), generated slot orders and preimages; \
         each inner batch goes through the private wrapper circuit (E1), its public inputs are fed verbatim to the public wrapper circuit (E1); both must be Sat. \
         Oracle from the leaf statements only: sum of public exit sums == sum of real (o1+o2); per account equal; multiset of non-zero public nullifiers == real leaf nullifiers + H(H(u)) of dummy slots of real inners; \
         all-dummy inners contribute only zeros. Non-trivial: >=2 real inner batches, >=1 padding inner, an account spanning two batches.",
    );
    ctx.assume("wrapper-only circuits (hooks H2/H3); the full recursive pipeline with real proofs is exercised by C05/C14/C18");
    let mut ns: Vec<usize> = shapes.iter().map(|s| s.1).collect();
    ns.sort();
    ns.dedup();
    let privs = match privprops::build_circuits(&ns, false) {
        Ok(p) => p,
        Err(e) => {
            ctx.tally.lock().unwrap().infra(e);
            return;
        }
    };
    let pubs = match build_pub_circuits(&shapes, &privs) {
        Ok(p) => p,
        Err(e) => {
            ctx.tally.lock().unwrap().infra(e);
            return;
        }
    };
    let workers = ctx.n_workers();
    ctx.par(workers, |wi, t| {
        let mut rng = Rng::fork(ctx.seed, wi as u64);
        for c in 0..n_chains.div_ceil(workers) {
            let (m, n) = shapes[(c + wi) % shapes.len()];
            chain_case(&privs[&n], &pubs[&(m, n)], &mut rng, t, c < 2);
        }
    });
}

fn chain_case(pc: &PrivCircuit, pb: &PubCircuit, rng: &mut Rng, t: &mut Tally, sample: bool) {
    let (m, n) = (pb.m, pb.n);
    let pools = pbatch::make_pools(rng);
    let asset = 0u64; // padding with dummies requires the native asset in honest use; also exercise non-zero
    let asset = if rng.chance(1, 4) { 1 + rng.below(9) } else { asset };
    let fee = pools.fees[0];
    // how many real leaves in each inner batch (0 => padding inner)
    let mut counts: Vec<usize> = (0..m).map(|_| if rng.chance(1, 4) { 0 } else { 1 + rng.usize(n) }).collect();
    if counts.iter().all(|c| *c == 0) {
        counts[rng.usize(m)] = 1 + rng.usize(n);
    }
    let mut all_real: Vec<LeafStmt> = vec![];
    let mut expected_nulls: Vec<D4> = vec![];
    let mut inners: Vec<Inner> = vec![];
    let mut nul_ctr = 0u64;
    for &k in &counts {
        let mut leaves: Vec<LeafStmt> = vec![];
        for _ in 0..k {
            nul_ctr += 1;
            let nul: D4 = [rng.felt(), rng.felt(), nul_ctr, rng.felt()];
            let mut l = pbatch::gen_real(rng, &pools, asset, 0, fee, nul);
            // keep grouped sums below 2^32: small amounts mostly
            l.out1 = rng.below(1 << 24);
            l.out2 = if rng.chance(1, 3) { 0 } else { rng.below(1 << 24) };
            leaves.push(l);
        }
        for _ in k..n {
            leaves.push(pbatch::gen_dummy(rng, &pools, asset));
        }
        rng.shuffle(&mut leaves);
        let pre: Vec<D4> = (0..n).map(|_| [rng.felt(), rng.felt(), rng.felt(), rng.felt()]).collect();
        let out = pc.circuit.eval(&pc.fill(&leaves, &pre), &[]);
        t.eval();
        let Some(pis) = out.pis() else {
            t.violation(
                "C36:inner-unsat".to_string(),
                format!("a compatible inner batch is unsatisfiable in the private wrapper: {}", out.short()),
                json!({"kind": "priv_reject", "n": n, "batch": pbatch::batch_json(&leaves, &pre)}),
            );
            return;
        };
        if k > 0 {
            for (l, u) in leaves.iter().zip(pre.iter()) {
                if l.is_dummy() {
                    expected_nulls.push(pbatch::dummy_nullifier(u));
                } else {
                    expected_nulls.push(l.nullifier);
                    all_real.push(l.clone());
                }
            }
        }
        inners.push(Inner { n, pis: pis.to_vec() });
    }
    let addr: D4 = [rng.felt(), rng.felt(), rng.felt(), rng.felt()];
    let out = pb.circuit.eval(&pb.fill(&addr, &inners), &[]);
    t.eval();
    let Some(pis) = out.pis() else {
        t.violation(
            "C36:public-unsat".to_string(),
            format!("public wrapper unsatisfiable for private-wrapper outputs of compatible batches: {}", out.short()),
            json!({"kind": "pub_reject", "m": m, "n": n, "batch": inners_json(&addr, &inners)}),
        );
        return;
    };
    // oracle from the leaf statements only
    let total_leaf: u128 = all_real.iter().map(|l| l.out1 as u128 + l.out2 as u128).sum();
    let mut per_acct: BTreeMap<D4, u128> = BTreeMap::new();
    for l in &all_real {
        *per_acct.entry(l.exit1).or_insert(0) += l.out1 as u128;
        *per_acct.entry(l.exit2).or_insert(0) += l.out2 as u128;
    }
    let mut total_pub: u128 = 0;
    let mut pub_acct: BTreeMap<D4, u128> = BTreeMap::new();
    for s in 0..2 * n * m {
        let b = 12 + 5 * s;
        let amt = pis[b] as u128;
        total_pub += amt;
        if amt != 0 {
            *pub_acct.entry([pis[b + 1], pis[b + 2], pis[b + 3], pis[b + 4]]).or_insert(0) += amt;
        }
    }
    per_acct.retain(|_, v| *v != 0);
    let case = json!({"kind": "chain", "m": m, "n": n, "counts": counts, "public_inputs": pis,
                      "leaves": all_real.iter().map(|l| l.to_json()).collect::<Vec<_>>()});
    if total_pub != total_leaf {
        t.violation("C36:value".to_string(), format!("public exit sums {} != real leaf outputs {}", total_pub, total_leaf), case.clone());
    } else if pub_acct != per_acct {
        t.violation("C36:per-account".to_string(), "per-account totals differ between public output and real leaves".to_string(), case.clone());
    }
    let nb = 12 + 10 * n * m;
    let mut got: Vec<D4> = (0..n * m)
        .map(|i| [pis[nb + 4 * i], pis[nb + 4 * i + 1], pis[nb + 4 * i + 2], pis[nb + 4 * i + 3]])
        .filter(|d| *d != [0; 4])
        .collect();
    got.sort();
    let mut exp = expected_nulls.clone();
    exp.sort();
    if got != exp {
        t.violation("C36:nullifiers".to_string(),
            format!("non-zero public nullifiers ({}) are not exactly the real leaf nullifiers plus dummy replacements of real inners ({})", got.len(), exp.len()),
            case.clone());
    }
    // padding inners add nothing: their segments are all-zero
    for (i, &k) in counts.iter().enumerate() {
        if k == 0 {
            let seg = &pis[12 + 10 * n * i..12 + 10 * n * (i + 1)];
            let nseg = &pis[nb + 4 * n * i..nb + 4 * n * (i + 1)];
            if seg.iter().chain(nseg.iter()).any(|x| *x != 0) {
                t.violation("C36:padding-inner-visible".to_string(), format!("padding inner {} contributes non-zero output", i), case.clone());
            }
        }
    }
    let real_inners = counts.iter().filter(|c| **c > 0).count();
    let padding = counts.iter().filter(|c| **c == 0).count();
    let spanning = {
        // an account paid by real leaves of two different inner batches
        let mut seen: BTreeMap<D4, usize> = BTreeMap::new();
        let mut span = false;
        let mut idx = 0;
        for (bi, &k) in counts.iter().enumerate() {
            for _ in 0..k {
                let l = &all_real[idx];
                idx += 1;
                for a in [l.exit1, l.exit2] {
                    if let Some(prev) = seen.get(&a) {
                        if *prev != bi {
                            span = true;
                        }
                    } else {
                        seen.insert(a, bi);
                    }
                }
            }
        }
        span
    };
    t.class(&format!("M={},N={}|real_inners={}|padding={}|spanning={}", m, n, real_inners.min(3), padding.min(2), spanning));
    if real_inners >= 2 && padding >= 1 && spanning {
        let mut v: Vec<u64> = counts.iter().map(|c| *c as u64).collect();
        v.extend_from_slice(pis);
        t.nontrivial(fnv_u64s(&v));
    }
    if sample {
        t.sample(json!({"m": m, "n": n, "real_leaves_per_inner": counts, "total_value": total_leaf.to_string(), "nonzero_nullifiers": got.len()}));
    }
}
