//! C24 — public-input parsers are total, exact and mutually consistent (E2).
//!
//! Reference writer + reference well-formedness predicate/decoder written from the
//! documented layouts; every parser entry point is compared with it on valid
//! structures, single-field corruptions and arbitrary vectors.

use plonky2::field::types::Field;
use serde_json::json;
use wormhole_circuit::inputs::{ParsePrivateBatchPublicInputs, ParsePublicInputs};
use wormhole_verifier::{PrivateBatchPublicInputs, PublicBatchPublicInputs, PublicCircuitInputs};
use zk_circuits_common::circuit::F;

use crate::refm::P;
use crate::util::rng::Rng;
use crate::util::{catch, fnv_u64s, simplify_u64s, Ctx, Tally};

const U32M: u64 = u32::MAX as u64;

// ----------------------------------------------------------------- reference

#[derive(Debug, Clone, PartialEq, Eq)]
pub struct RefLeaf {
    scalars: [u32; 5], // asset, out1, out2, fee, block number
    digests: [[u8; 32]; 4], // nullifier, exit1, exit2, block hash
}

#[derive(Debug, Clone, PartialEq, Eq)]
pub struct RefAgg {
    addr: Option<[u8; 32]>,
    header: [u32; 4], // slots constant, asset, fee, block number
    block_hash: [u8; 32],
    slots: Vec<(u32, [u8; 32])>,
    nullifiers: Vec<[u8; 32]>,
}

fn u32_of(x: u64) -> Option<u32> {
    if x <= U32M {
        Some(x as u32)
    } else {
        None
    }
}

fn digest_of(v: &[u64]) -> Option<[u8; 32]> {
    let mut out = [0u8; 32];
    for i in 0..4 {
        if v[i] >= P {
            return None;
        }
        out[i * 8..i * 8 + 8].copy_from_slice(&v[i].to_le_bytes());
    }
    Some(out)
}

pub fn ref_leaf(v: &[u64]) -> Option<RefLeaf> {
    if v.len() != 21 {
        return None;
    }
    Some(RefLeaf {
        scalars: [u32_of(v[0])?, u32_of(v[1])?, u32_of(v[2])?, u32_of(v[3])?, u32_of(v[20])?],
        digests: [digest_of(&v[4..8])?, digest_of(&v[8..12])?, digest_of(&v[12..16])?, digest_of(&v[16..20])?],
    })
}

pub fn ref_priv(v: &[u64]) -> Option<RefAgg> {
    if v.len() < 8 || (v.len() - 8) % 21 != 0 {
        return None;
    }
    let n = (v.len() - 8) / 21;
    if !(1..=64).contains(&n) {
        return None;
    }
    let c = u32_of(v[0])?;
    if c as usize != 2 * n {
        return None;
    }
    let header = [c, u32_of(v[1])?, u32_of(v[2])?, u32_of(v[7])?];
    let block_hash = digest_of(&v[3..7])?;
    let mut slots = vec![];
    for s in 0..2 * n {
        let b = 8 + 5 * s;
        slots.push((u32_of(v[b])?, digest_of(&v[b + 1..b + 5])?));
    }
    let mut nullifiers = vec![];
    for k in 0..n {
        let b = 8 + 10 * n + 4 * k;
        nullifiers.push(digest_of(&v[b..b + 4])?);
    }
    Some(RefAgg { addr: None, header, block_hash, slots, nullifiers })
}

pub fn pub_len(m: usize, n: usize) -> Option<usize> {
    let a = (m as u128) * (n as u128) * 14 + 12;
    if a > usize::MAX as u128 {
        None
    } else {
        Some(a as usize)
    }
}

/// Oracle for `try_pi_len`: a returned length must be the exact layout length; `None`
/// is legitimate only when the total or one of the layout's intermediate terms
/// (2n, m*2n, m*2n*5, m*n, m*n*4) does not fit in usize ("never wraps", not "never
/// gives up early").
pub fn pi_len_ok(m: usize, n: usize, got: Option<usize>) -> bool {
    let (m1, n1) = (m as u128, n as u128);
    let max = usize::MAX as u128;
    match got {
        Some(x) => Some(x) == pub_len(m, n),
        None => [2 * n1, m1.saturating_mul(2 * n1), m1.saturating_mul(2 * n1).saturating_mul(5), m1.saturating_mul(n1), m1.saturating_mul(n1).saturating_mul(4), m1.saturating_mul(n1).saturating_mul(14).saturating_add(12)]
            .iter()
            .any(|t| *t > max),
    }
}

pub fn ref_pub(v: &[u64], m: usize, n: usize) -> Option<RefAgg> {
    if !(1..=64).contains(&m) || !(1..=64).contains(&n) {
        return None;
    }
    if v.len() != 12 + 14 * m * n {
        return None;
    }
    let addr = digest_of(&v[0..4])?;
    let c = u32_of(v[11])?;
    if c as usize != 2 * n * m {
        return None;
    }
    let header = [c, u32_of(v[4])?, u32_of(v[5])?, u32_of(v[10])?];
    let block_hash = digest_of(&v[6..10])?;
    let mut slots = vec![];
    for s in 0..2 * n * m {
        let b = 12 + 5 * s;
        slots.push((u32_of(v[b])?, digest_of(&v[b + 1..b + 5])?));
    }
    let mut nullifiers = vec![];
    for k in 0..n * m {
        let b = 12 + 10 * n * m + 4 * k;
        nullifiers.push(digest_of(&v[b..b + 4])?);
    }
    Some(RefAgg { addr: Some(addr), header, block_hash, slots, nullifiers })
}

// ------------------------------------------------------- views of parser output

fn view_leaf(p: &PublicCircuitInputs) -> RefLeaf {
    RefLeaf {
        scalars: [p.asset_id, p.output_amount_1, p.output_amount_2, p.volume_fee_bps, p.block_number],
        digests: [*p.nullifier, *p.exit_account_1, *p.exit_account_2, *p.block_hash],
    }
}

fn view_priv(p: &PrivateBatchPublicInputs) -> RefAgg {
    RefAgg {
        addr: None,
        header: [p.num_exit_slots, p.asset_id, p.volume_fee_bps, p.block_data.block_number],
        block_hash: *p.block_data.block_hash,
        slots: p.account_data.iter().map(|a| (a.summed_output_amount, *a.exit_account)).collect(),
        nullifiers: p.nullifiers.iter().map(|n| **n).collect(),
    }
}

fn view_pub(p: &PublicBatchPublicInputs) -> RefAgg {
    RefAgg {
        addr: Some(*p.aggregator_address),
        header: [p.total_exit_slots, p.asset_id, p.volume_fee_bps, p.block_data.block_number],
        block_hash: *p.block_data.block_hash,
        slots: p.account_data.iter().map(|a| (a.summed_output_amount, *a.exit_account)).collect(),
        nullifiers: p.nullifiers.iter().map(|n| **n).collect(),
    }
}

// ------------------------------------------------------------------ generators

fn scalar(rng: &mut Rng) -> u64 {
    match rng.below(6) {
        0 => 0,
        1 => U32M,
        2 => rng.below(10001),
        _ => rng.u32() as u64,
    }
}

fn limb(rng: &mut Rng) -> u64 {
    match rng.below(8) {
        0 => 0,
        1 => P - 1,
        2 => P - 2,
        3 => 1 << 32,
        4 => U32M,
        _ => rng.felt(),
    }
}

fn push_digest(rng: &mut Rng, v: &mut Vec<u64>) {
    if rng.chance(1, 8) {
        v.extend_from_slice(&[0, 0, 0, 0]);
    } else {
        for _ in 0..4 {
            v.push(limb(rng));
        }
    }
}

pub fn write_leaf(rng: &mut Rng) -> Vec<u64> {
    let mut v = vec![scalar(rng), scalar(rng), scalar(rng), scalar(rng)];
    for _ in 0..4 {
        push_digest(rng, &mut v);
    }
    v.push(scalar(rng));
    v
}

pub fn write_priv(rng: &mut Rng, n: usize) -> Vec<u64> {
    let mut v = vec![2 * n as u64, scalar(rng), scalar(rng)];
    push_digest(rng, &mut v);
    v.push(scalar(rng));
    for _ in 0..2 * n {
        v.push(scalar(rng));
        push_digest(rng, &mut v);
    }
    for _ in 0..n {
        push_digest(rng, &mut v);
    }
    // padding to 21N+8: content is not part of well-formedness; generate non-zero garbage too
    let garbage = rng.chance(1, 2);
    while v.len() < 21 * n + 8 {
        v.push(if garbage { rng.u64() } else { 0 });
    }
    v
}

pub fn write_pub(rng: &mut Rng, m: usize, n: usize) -> Vec<u64> {
    let mut v = vec![];
    push_digest(rng, &mut v);
    v.push(scalar(rng));
    v.push(scalar(rng));
    push_digest(rng, &mut v);
    v.push(scalar(rng));
    v.push((2 * n * m) as u64);
    for _ in 0..2 * n * m {
        v.push(scalar(rng));
        push_digest(rng, &mut v);
    }
    for _ in 0..n * m {
        push_digest(rng, &mut v);
    }
    v
}

#[derive(Clone, Copy, Debug, PartialEq, Eq)]
enum Layout {
    Leaf,
    Priv,
    Pub,
}

/// Corrupt one field of a valid vector. Returns a label.
fn corrupt(rng: &mut Rng, v: &mut Vec<u64>, layout: Layout, m: usize, n: usize) -> String {
    let (scalar_idx, digest_starts, const_idx): (Vec<usize>, Vec<usize>, Option<usize>) = match layout {
        Layout::Leaf => (vec![0, 1, 2, 3, 20], vec![4, 8, 12, 16], None),
        Layout::Priv => {
            let mut s = vec![1, 2, 7];
            let mut d = vec![3];
            for k in 0..2 * n {
                s.push(8 + 5 * k);
                d.push(9 + 5 * k);
            }
            for k in 0..n {
                d.push(8 + 10 * n + 4 * k);
            }
            (s, d, Some(0))
        }
        Layout::Pub => {
            let mut s = vec![4, 5, 10];
            let mut d = vec![0, 6];
            for k in 0..2 * n * m {
                s.push(12 + 5 * k);
                d.push(13 + 5 * k);
            }
            for k in 0..n * m {
                d.push(12 + 10 * n * m + 4 * k);
            }
            (s, d, Some(11))
        }
    };
    match rng.below(if const_idx.is_some() { 5 } else { 4 }) {
        0 => {
            // scalar out of u32 range (first / last / random scalar position)
            let i = match rng.below(3) {
                0 => scalar_idx[0],
                1 => *scalar_idx.last().unwrap(),
                _ => *rng.pick(&scalar_idx),
            };
            let val = *rng.pick(&[1u64 << 32, (1 << 32) + 1, 1 << 63, P - 1, u64::MAX, P]);
            v[i] = val;
            format!("scalar[{}]:={}", if i == scalar_idx[0] { "first" } else if i == *scalar_idx.last().unwrap() { "last" } else { "mid" }, label_val(val))
        }
        1 => {
            // digest limb: p-1 stays valid; p, p+1, 2^64-1 invalid
            let d = match rng.below(3) {
                0 => digest_starts[0],
                1 => *digest_starts.last().unwrap(),
                _ => *rng.pick(&digest_starts),
            };
            let i = d + rng.usize(4);
            let val = *rng.pick(&[P - 1, P, P + 1, u64::MAX]);
            v[i] = val;
            format!("digest-limb:={}", label_val(val))
        }
        2 => {
            // length change
            let delta: i64 = *rng.pick(&[-1i64, 1, -21, 21, -5, 4]);
            let new_len = (v.len() as i64 + delta).max(0) as usize;
            if new_len < v.len() {
                v.truncate(new_len);
            } else {
                while v.len() < new_len {
                    v.push(0);
                }
            }
            format!("length{:+}", delta)
        }
        3 => {
            // short vectors
            let l = *rng.pick(&[0usize, 1, 2, 3, 7, 8, 9, 20, 21, 22, 28]);
            v.truncate(l);
            while v.len() < l {
                v.push(rng.below(4));
            }
            format!("length:={}", l)
        }
        _ => {
            let i = const_idx.unwrap();
            let c = v[i];
            let val = match rng.below(6) {
                0 => c + 1,
                1 => c.wrapping_sub(1),
                2 => c * 2,
                3 => 0,
                4 => c + (1 << 32), // truncating `as u32` would accept
                _ => c / 2,
            };
            v[i] = val;
            format!("slots-constant:{}", if val == c + (1 << 32) { "c+2^32" } else if val == 0 { "0" } else { "off" })
        }
    }
}

fn label_val(v: u64) -> &'static str {
    if v == 1 << 32 {
        "2^32"
    } else if v == (1 << 32) + 1 {
        "2^32+1"
    } else if v == 1 << 63 {
        "2^63"
    } else if v == P - 1 {
        "p-1"
    } else if v == P {
        "p"
    } else if v == P + 1 {
        "p+1"
    } else if v == u64::MAX {
        "2^64-1"
    } else {
        "other"
    }
}

// ----------------------------------------------------------------- proof shell

pub struct ProofShell {
    pub proof: wormhole_verifier::ProofWithPublicInputs<wormhole_verifier::F, wormhole_verifier::C, { wormhole_verifier::D }>,
}

impl ProofShell {
    /// A structurally valid verifier-crate proof object whose `public_inputs`
    /// vector is replaced per case (the parse functions read nothing else).
    pub fn build() -> Result<ProofShell, String> {
        use plonky2::iop::witness::PartialWitness;
        use plonky2::plonk::circuit_builder::CircuitBuilder;
        use plonky2::plonk::circuit_data::CircuitConfig;
        let mut b = CircuitBuilder::<F, 2>::new(CircuitConfig::standard_recursion_config());
        let t = b.add_virtual_target();
        b.register_public_input(t);
        let data = b.build::<zk_circuits_common::circuit::C>();
        let mut pw = PartialWitness::new();
        plonky2::iop::witness::WitnessWrite::set_target(&mut pw, t, F::ONE).map_err(|e| e.to_string())?;
        let proof = data.prove(pw).map_err(|e| e.to_string())?;
        let common_bytes = data.common.to_bytes(&plonky2::util::serialization::DefaultGateSerializer).map_err(|e| format!("{:?}", e))?;
        let vcommon = wormhole_verifier::CommonCircuitData::<wormhole_verifier::F, { wormhole_verifier::D }>::from_bytes(common_bytes, &qp_plonky2_verifier::util::serialization::DefaultGateSerializer).map_err(|e| format!("{:?}", e))?;
        let vp = wormhole_verifier::ProofWithPublicInputs::from_bytes(proof.to_bytes(), &vcommon).map_err(|e| e.to_string())?;
        Ok(ProofShell { proof: vp })
    }
    fn with(&self, v: &[u64]) -> wormhole_verifier::ProofWithPublicInputs<wormhole_verifier::F, wormhole_verifier::C, { wormhole_verifier::D }> {
        let mut p = self.proof.clone();
        p.public_inputs = v.iter().map(|x| wormhole_verifier::F::from_noncanonical_u64(*x)).collect();
        p
    }
}

// --------------------------------------------------------------------- oracle

fn canon(v: &[u64]) -> Vec<u64> {
    v.iter().map(|x| if *x >= P { *x - P } else { *x }).collect()
}

fn felts(v: &[u64]) -> Vec<F> {
    v.iter().map(|x| F::from_noncanonical_u64(*x)).collect()
}

/// Returns a list of (signature, description) disagreements for vector `v`
/// interpreted under `layout`.
fn judge(shell: &ProofShell, v: &[u64], layout: Layout, m: usize, n: usize) -> Vec<(String, String)> {
    let mut out = vec![];
    let cv = canon(v);
    match layout {
        Layout::Leaf => {
            let want = ref_leaf(v);
            let want_c = ref_leaf(&cv);
            let a = catch(|| PublicCircuitInputs::try_from_u64_slice(v).ok().map(|p| view_leaf(&p)));
            cmp("leaf:u64", &mut out, a, &want);
            let b = catch(|| <PublicCircuitInputs as ParsePublicInputs>::try_from_felts(&felts(v)).ok().map(|p| view_leaf(&p)));
            cmp("leaf:felts", &mut out, b, &want_c);
            let p = shell.with(v);
            let c = catch(|| wormhole_verifier::parse_public_inputs(&p).ok().map(|p| view_leaf(&p)));
            cmp("leaf:verifier", &mut out, c, &want_c);
        }
        Layout::Priv => {
            let want = ref_priv(v);
            let want_c = ref_priv(&cv);
            let a = catch(|| PrivateBatchPublicInputs::try_from_u64_slice(v).ok().map(|p| view_priv(&p)));
            cmp("private:u64", &mut out, a.clone(), &want);
            let b = catch(|| <PrivateBatchPublicInputs as ParsePrivateBatchPublicInputs>::try_from_felts(&felts(v)).ok().map(|p| view_priv(&p)));
            cmp("private:felts", &mut out, b.clone(), &want_c);
            // mutual agreement of the two private-batch parsers on the canonical vector
            let a_c = catch(|| PrivateBatchPublicInputs::try_from_u64_slice(&cv).ok().map(|p| view_priv(&p)));
            if let (Ok(x), Ok(y)) = (&a_c, &b) {
                if x != y {
                    out.push(("C24:private:u64-vs-felts".into(), format!("the u64 and field-element private-batch parsers disagree (u64 ok={}, felts ok={})", x.is_some(), y.is_some())));
                }
            }
            let p = shell.with(v);
            let c = catch(|| wormhole_verifier::parse_private_batch_public_inputs(&p).ok().map(|p| view_priv(&p)));
            cmp("private:verifier", &mut out, c, &want_c);
        }
        Layout::Pub => {
            let want = ref_pub(v, m, n);
            let want_c = ref_pub(&cv, m, n);
            let a = catch(|| PublicBatchPublicInputs::try_from_u64_slice(v, m, n).ok().map(|p| view_pub(&p)));
            cmp("public:u64", &mut out, a, &want);
            let p = shell.with(v);
            let c = catch(|| wormhole_verifier::parse_public_batch_public_inputs(&p, m, n).ok().map(|p| view_pub(&p)));
            cmp("public:verifier", &mut out, c, &want_c);
        }
    }
    out
}

fn cmp<T: PartialEq + std::fmt::Debug>(name: &str, out: &mut Vec<(String, String)>, got: Result<Option<T>, String>, want: &Option<T>) {
    match got {
        Err(p) => out.push((format!("C24:{}:panic", name), format!("{} parser panicked: {}", name, p))),
        Ok(g) => match (&g, want) {
            (Some(_), None) => out.push((format!("C24:{}:accepts-malformed", name), format!("{} parser accepts a vector the documented layout rejects", name))),
            (None, Some(_)) => out.push((format!("C24:{}:rejects-wellformed", name), format!("{} parser rejects a well-formed vector", name))),
            (Some(a), Some(b)) if a != b => out.push((format!("C24:{}:wrong-value", name), format!("{} parser returns a structure different from the reference decode", name))),
            _ => {}
        },
    }
}

fn report(t: &mut Tally, shell: &ProofShell, v: &[u64], layout: Layout, m: usize, n: usize, label: &str) {
    let issues = judge(shell, v, layout, m, n);
    for (sig, desc) in issues {
        // shrink: simplify elements while the same signature persists
        let small = simplify_u64s(v.to_vec(), |c| judge(shell, c, layout, m, n).iter().any(|(s, _)| *s == sig));
        t.violation(
            sig.clone(),
            format!("{} (case class: {}, length {})", desc, label, v.len()),
            json!({"kind": "c24", "layout": format!("{:?}", layout), "m": m, "n": n, "vector": small}),
        );
    }
}

pub fn run(ctx: &Ctx) {
    let total: usize = ctx.tier.pick(400_000, 8_000_000);
    ctx.set_rule(
        "vectors of u64 for the three layouts (leaf 21; private batch 8+21N for every N in 1..64; public batch 12+14MN for (M,N) over {1,2,3,7,8,63,64}^2 quick / sampled from all 64^2 thorough): \
         (1) reference-writer output (valid; padding with generated non-zero felts), (2) one field of a valid vector corrupted (scalar -> {2^32,2^32+1,2^63,p-1,p,2^64-1}; digest limb -> {p-1 (stays valid),p,p+1,2^64-1}; slots constant +-1,x2,0,+2^32; length +-1,+-21; short vectors), \
         (3) arbitrary vectors with lengths around layout boundaries, (4) out-of-range declared counts for the public parser. \
         Oracle: no panic; Ok <=> reference well-formedness predicate; Ok(v) == reference decode; u64 and felt private-batch parsers agree on canonical(v); leaf entry points (u64, felts, verifier::parse_*) agree with the reference. \
         Non-trivial: vector of a valid length for its layout that is valid or exactly one field away from valid; distinct by vector fingerprint.",
    );
    ctx.assume("padding felts after the nullifier region of a private-batch vector are not part of well-formedness (the parsers do not read them)");
    let shell = match ProofShell::build() {
        Ok(s) => s,
        Err(e) => {
            ctx.tally.lock().unwrap().infra(format!("proof shell: {}", e));
            return;
        }
    };
    let workers = ctx.n_workers();
    let per = total.div_ceil(workers);
    let quick_shapes: Vec<usize> = vec![1, 2, 3, 7, 8, 63, 64];
    let thorough = ctx.tier == crate::util::Tier::Thorough;
    let shell = &shell;
    ctx.par(workers, |wi, t| {
        let mut rng = Rng::fork(ctx.seed, wi as u64);
        let mut accepted = 0u64;
        for c in 0..per {
            let kind = rng.below(20);
            // choose layout and shape
            let layout = match c % 3 {
                0 => Layout::Leaf,
                1 => Layout::Priv,
                _ => Layout::Pub,
            };
            let (m, n) = match layout {
                Layout::Leaf => (0, 0),
                Layout::Priv => (0, 1 + (c / 3) % 64),
                Layout::Pub => {
                    if thorough && rng.chance(1, 2) {
                        let m = 1 + rng.usize(64);
                        let n = 1 + rng.usize(64);
                        // bound the work: large shapes are sampled rarely
                        if m * n > 256 && !rng.chance(1, 40) {
                            (1 + rng.usize(8), 1 + rng.usize(8))
                        } else {
                            (m, n)
                        }
                    } else {
                        let m = *rng.pick(&quick_shapes);
                        let n = *rng.pick(&quick_shapes);
                        if m * n > 64 && !rng.chance(1, 60) {
                            (*rng.pick(&[1usize, 2, 3]), *rng.pick(&[1usize, 2, 3, 7]))
                        } else {
                            (m, n)
                        }
                    }
                }
            };
            let mut v = match layout {
                Layout::Leaf => write_leaf(&mut rng),
                Layout::Priv => write_priv(&mut rng, n),
                Layout::Pub => write_pub(&mut rng, m, n),
            };
            let mut pm = m;
            let mut pn = n;
            let label: String = if kind < 7 {
                "valid".into()
            } else if kind < 16 {
                corrupt(&mut rng, &mut v, layout, m, n)
            } else if kind < 18 {
                // arbitrary vector, boundary lengths
                let base = v.len();
                let l = (base as i64 + rng.range(0, 4) as i64 - 2).max(0) as usize;
                v = (0..l).map(|_| match rng.below(4) { 0 => rng.u64(), 1 => rng.below(1 << 33), 2 => 0, _ => rng.felt() }).collect();
                if layout == Layout::Priv && !v.is_empty() && rng.bool() {
                    v[0] = 2 * n as u64;
                }
                "arbitrary".into()
            } else if layout == Layout::Pub {
                // declared counts out of range / mismatching the vector
                let bad = [0usize, 65, 66, 1 << 16, 1 << 32, 1 << 63, usize::MAX];
                if rng.bool() {
                    pm = *rng.pick(&bad);
                } else {
                    pn = *rng.pick(&bad);
                }
                if rng.chance(1, 4) {
                    pm = *rng.pick(&bad);
                    pn = *rng.pick(&bad);
                }
                "declared-count-out-of-range".into()
            } else {
                "valid".into()
            };
            t.eval();
            report(t, shell, &v, layout, pm, pn, &label);
            let ok = match layout {
                Layout::Leaf => ref_leaf(&v).is_some(),
                Layout::Priv => ref_priv(&v).is_some(),
                Layout::Pub => ref_pub(&v, pm, pn).is_some(),
            };
            if ok {
                accepted += 1;
            }
            let cls = format!("{:?}|{}|{}", layout, label, if ok { "well-formed" } else { "malformed" });
            t.sample_if_new_class(&cls, || json!({"layout": format!("{:?}", layout), "m": pm, "n": pn, "class": label, "len": v.len(), "well_formed": ok, "head": v.iter().take(12).collect::<Vec<_>>()}));
            t.class(&cls);
            let valid_len = match layout {
                Layout::Leaf => v.len() == 21,
                Layout::Priv => v.len() >= 29 && (v.len() - 8) % 21 == 0 && (v.len() - 8) / 21 <= 64,
                Layout::Pub => (1..=64).contains(&pm) && (1..=64).contains(&pn) && v.len() == 12 + 14 * pm * pn,
            };
            if valid_len && (label == "valid" || label.starts_with("scalar") || label.starts_with("digest") || label.starts_with("slots")) {
                t.nontrivial(fnv_u64s(&v) ^ ((pm as u64) << 32) ^ pn as u64);
            }
        }
        if accepted == 0 {
            t.infra("no generated vector was well-formed (degenerate accepting side)".to_string());
        }
        // try_pi_len against u128 reference arithmetic (shared with C29)
        pi_len_sweep(&mut rng, t, 2000, "C24");
    });
}

/// Samples try_pi_len against exact u128 arithmetic: generic extremes plus values around and
/// between the overflow thresholds of each layout term.
pub fn pi_len_sweep(rng: &mut Rng, t: &mut Tally, count: usize, prefix: &str) {
        for _ in 0..count {
            let pick = |rng: &mut Rng| -> usize { match rng.below(6) { 0 => rng.usize(70), 1 => usize::MAX, 2 => 1 << 63, 3 => (1usize << 32) + rng.usize(3), 4 => rng.u64() as usize, _ => rng.usize(1 << 20) } };
            let (m, n) = if rng.chance(1, 2) {
                (pick(rng), pick(rng))
            } else {
                // around the overflow threshold of each layout term (2n, 4mn, 10mn, 14mn, ...) and
                // inside the bands between two thresholds, where a partially checked sum would wrap
                let m = 1 + rng.usize(8);
                let c = *rng.pick(&[2usize, 4, 5, 8, 10, 11, 12, 13, 14, 15, 16, 20, 28]);
                let base = usize::MAX / c / m;
                let n = match rng.below(3) {
                    0 => base.wrapping_add(rng.usize(5)).wrapping_sub(2),
                    1 => base - rng.usize(base / 8 + 1),
                    _ => base + rng.usize(base / 8 + 1),
                };
                if rng.bool() { (m, n) } else { (n, m) }
            };
            let got = match catch(|| qp_wormhole_inputs::public_batch_pi::try_pi_len(m, n)) {
                Ok(g) => g,
                Err(p) => {
                    t.violation(format!("{}:try_pi_len", prefix), format!("try_pi_len({}, {}) panicked: {}", m, n, p), json!({"kind": "c24_pilen", "m": m, "n": n}));
                    continue;
                }
            };
            t.eval();
            if !pi_len_ok(m, n, got) {
                t.violation(format!("{}:try_pi_len", prefix), format!("try_pi_len({}, {}) = {:?}, u128 arithmetic says {:?}", m, n, got, pub_len(m, n)), json!({"kind": "c24_pilen", "m": m, "n": n}));
            }
        }
}

pub fn replay(case: &serde_json::Value) -> Result<bool, String> {
    if case["kind"] == "c24_pilen" {
        let m = case["m"].as_u64().ok_or("m")? as usize;
        let n = case["n"].as_u64().ok_or("n")? as usize;
        return Ok(!pi_len_ok(m, n, qp_wormhole_inputs::public_batch_pi::try_pi_len(m, n)));
    }
    let shell = ProofShell::build()?;
    let v: Vec<u64> = case["vector"].as_array().ok_or("vector")?.iter().map(|x| x.as_u64().unwrap_or(0)).collect();
    let layout = match case["layout"].as_str() {
        Some("Leaf") => Layout::Leaf,
        Some("Priv") => Layout::Priv,
        _ => Layout::Pub,
    };
    let m = case["m"].as_u64().unwrap_or(0) as usize;
    let n = case["n"].as_u64().unwrap_or(0) as usize;
    Ok(!judge(&shell, &v, layout, m, n).is_empty())
}
