//! Reference model pieces written from the property statements. Shares only
//! plonky2's Poseidon2 permutation (trusted base) with the code under test.

use plonky2::field::types::{Field, PrimeField64};
use plonky2::hash::poseidon2::Poseidon2Hash;
use plonky2::plonk::config::Hasher;
use zk_circuits_common::circuit::F;

pub const P: u64 = 0xFFFF_FFFF_0000_0001;
pub type D4 = [u64; 4];

pub fn h(xs: &[u64]) -> D4 {
    let fs: Vec<F> = xs.iter().map(|x| F::from_noncanonical_u64(*x)).collect();
    let o = Poseidon2Hash::hash_no_pad(&fs);
    [
        o.elements[0].to_canonical_u64(),
        o.elements[1].to_canonical_u64(),
        o.elements[2].to_canonical_u64(),
        o.elements[3].to_canonical_u64(),
    ]
}

/// 4-bytes-per-felt edge encoding with a 0x01 terminator (reference).
pub fn bytes_to_felts_ref(b: &[u8]) -> Vec<u64> {
    let mut out = vec![];
    let mut i = 0;
    while i + 4 <= b.len() {
        out.push(u32::from_le_bytes([b[i], b[i + 1], b[i + 2], b[i + 3]]) as u64);
        i += 4;
    }
    let mut last = [0u8; 4];
    let rem = &b[i..];
    last[..rem.len()].copy_from_slice(rem);
    last[rem.len()] = 1;
    out.push(u32::from_le_bytes(last) as u64);
    out
}

/// Reference decoder: Some(bytes) iff `v` is the image of some byte string.
pub fn felts_to_bytes_ref(v: &[u64]) -> Option<Vec<u8>> {
    if v.is_empty() {
        return None;
    }
    for x in v {
        if *x > u32::MAX as u64 {
            return None;
        }
    }
    let mut out = vec![];
    for x in &v[..v.len() - 1] {
        out.extend_from_slice(&(*x as u32).to_le_bytes());
    }
    let last = (v[v.len() - 1] as u32).to_le_bytes();
    // terminator is the highest non-zero byte and must be 1
    let mut top = None;
    for j in (0..4).rev() {
        if last[j] != 0 {
            top = Some(j);
            break;
        }
    }
    let j = top?;
    if last[j] != 1 {
        return None;
    }
    out.extend_from_slice(&last[..j]);
    Some(out)
}

pub fn salt_wormhole() -> Vec<u64> {
    bytes_to_felts_ref(b"wormhole")
}
pub fn salt_nullifier() -> Vec<u64> {
    bytes_to_felts_ref(b"~nullif~")
}

/// WA(s) = H(H(wormhole-salt || s))
pub fn wormhole_address(secret: &D4) -> D4 {
    let mut pre = salt_wormhole();
    pre.extend_from_slice(secret);
    h(&h(&pre))
}

/// Null(s, c) = H(H(nullifier-salt || s || c_hi || c_lo))
pub fn nullifier(secret: &D4, tc_hi: u64, tc_lo: u64) -> D4 {
    let mut pre = salt_nullifier();
    pre.extend_from_slice(secret);
    pre.push(tc_hi);
    pre.push(tc_lo);
    h(&h(&pre))
}

pub fn leaf_hash(to: &D4, tc_hi: u64, tc_lo: u64, asset: u64, input: u64) -> D4 {
    let mut pre = to.to_vec();
    pre.push(tc_hi);
    pre.push(tc_lo);
    pre.push(asset);
    pre.push(input);
    h(&pre)
}

pub fn node_hash(children: &[D4; 4]) -> D4 {
    let mut pre = Vec::with_capacity(16);
    for c in children {
        pre.extend_from_slice(c);
    }
    h(&pre)
}

pub fn insert_at(cur: &D4, sibs: &[D4; 3], pos: usize) -> [D4; 4] {
    match pos {
        0 => [*cur, sibs[0], sibs[1], sibs[2]],
        1 => [sibs[0], *cur, sibs[1], sibs[2]],
        2 => [sibs[0], sibs[1], *cur, sibs[2]],
        _ => [sibs[0], sibs[1], sibs[2], *cur],
    }
}

/// Fold from leaf hash to root over `depth` levels.
pub fn merkle_fold(leaf: &D4, sibs: &[[D4; 3]], positions: &[u64]) -> D4 {
    let mut cur = *leaf;
    for (s, p) in sibs.iter().zip(positions.iter()) {
        cur = node_hash(&insert_at(&cur, s, *p as usize));
    }
    cur
}

#[derive(Clone, Debug)]
pub struct HeaderRef {
    pub parent: D4,
    pub number: u64,
    pub state_root: D4,
    pub extrinsics_root: D4,
    pub tree_root: D4,
    pub digest: Vec<u64>, // 28 felts
}

pub fn block_hash(hd: &HeaderRef) -> D4 {
    let mut pre = hd.parent.to_vec();
    pre.push(hd.number);
    pre.extend_from_slice(&hd.state_root);
    pre.extend_from_slice(&hd.extrinsics_root);
    pre.extend_from_slice(&hd.tree_root);
    pre.extend_from_slice(&hd.digest);
    h(&pre)
}

pub fn d4_to_bytes(d: &D4) -> [u8; 32] {
    let mut out = [0u8; 32];
    for i in 0..4 {
        out[i * 8..i * 8 + 8].copy_from_slice(&d[i].to_le_bytes());
    }
    out
}

pub fn bytes_to_d4(b: &[u8; 32]) -> D4 {
    let mut o = [0u64; 4];
    for i in 0..4 {
        o[i] = u64::from_le_bytes(b[i * 8..i * 8 + 8].try_into().unwrap());
    }
    o
}

pub fn canon(x: u64) -> u64 {
    if x >= P {
        x - P
    } else {
        x
    }
}

pub fn is_zero4(d: &D4) -> bool {
    d.iter().all(|x| canon(*x) == 0)
}

/// Field arithmetic helpers on canonical u64 representatives.
pub fn fadd(a: u64, b: u64) -> u64 {
    ((a as u128 + b as u128) % P as u128) as u64
}
pub fn fsub(a: u64, b: u64) -> u64 {
    ((a as u128 + P as u128 - (b % P) as u128) % P as u128) as u64
}
pub fn fmul(a: u64, b: u64) -> u64 {
    ((a as u128 * b as u128) % P as u128) as u64
}
pub fn finv(a: u64) -> u64 {
    F::from_noncanonical_u64(a).inverse().to_canonical_u64()
}

/// Non-zero difference vector with algebraic structure: limbs from roots of unity and
/// shift constants of the Goldilocks field and their negations. Two digests that differ
/// by such a vector are still different, but they collide under equality shortcuts such
/// as "sum of limb differences" ((1, p-1, 0, 0)), "sum of squared differences"
/// ((1, 2^48, 0, 0): 2^96 = -1 mod p), or "packed limbs" ((p-2^32, 1, 0, 0)).
pub fn structured_delta(rng: &mut crate::util::rng::Rng) -> D4 {
    const S: [u64; 12] = [1, P - 1, 1 << 48, P - (1 << 48), 1 << 32, P - (1 << 32), 1 << 24, P - (1 << 24), 1 << 16, 2, P - 2, 0xFFFF_FFFF];
    loop {
        let mut d = [0u64; 4];
        match rng.below(4) {
            0 => {
                // (x, +-y) on two limbs, the common collision shape
                let i = rng.usize(4);
                let j = (i + 1 + rng.usize(3)) % 4;
                d[i] = *rng.pick(&S[..2]);
                d[j] = *rng.pick(&S);
            }
            _ => {
                for x in d.iter_mut() {
                    if rng.bool() {
                        *x = *rng.pick(&S);
                    }
                }
            }
        }
        if d != [0; 4] {
            return d;
        }
    }
}

pub fn add4(a: &D4, d: &D4) -> D4 {
    [fadd(a[0], d[0]), fadd(a[1], d[1]), fadd(a[2], d[2]), fadd(a[3], d[3])]
}
