//! Public-batch wrapper: wrapper-only circuit (hook H3) over free inner public
//! inputs, reference model and generators of inner (private-batch) statements.

use plonky2::iop::target::Target;
use plonky2::plonk::circuit_builder::CircuitBuilder;
use plonky2::plonk::circuit_data::{CircuitConfig, CommonCircuitData};
use serde_json::{json, Value};
use wormhole_aggregator::public_batch::circuit::circuit_logic::{
    verif_build_public_batch_constraints, PublicBatchCircuitTargets,
};
use zk_circuits_common::circuit::{C, D, F};

use crate::engine::e1::{f, Circuit};
use crate::refm::{D4, P};
use crate::util::rng::Rng;

/// One inner statement: the 21N+8 public inputs of a private-batch proof.
#[derive(Clone, Debug, PartialEq, Eq)]
pub struct Inner {
    pub n: usize,
    pub pis: Vec<u64>,
}

impl Inner {
    pub fn asset(&self) -> u64 {
        self.pis[1]
    }
    pub fn fee(&self) -> u64 {
        self.pis[2]
    }
    pub fn block_hash(&self) -> D4 {
        [self.pis[3], self.pis[4], self.pis[5], self.pis[6]]
    }
    pub fn block_number(&self) -> u64 {
        self.pis[7]
    }
    pub fn is_dummy(&self) -> bool {
        self.block_hash() == [0; 4]
    }
    pub fn slots(&self) -> &[u64] {
        &self.pis[8..8 + 10 * self.n]
    }
    pub fn nullifiers(&self) -> &[u64] {
        &self.pis[8 + 10 * self.n..8 + 14 * self.n]
    }
}

#[derive(Clone, Debug)]
pub struct PubRef {
    pub accept: bool,
    pub failing: Vec<&'static str>,
    pub output: Vec<u64>,
}

pub fn reference(addr: &D4, inners: &[Inner]) -> PubRef {
    let m = inners.len();
    let n = inners[0].n;
    let first = inners.iter().find(|i| !i.is_dummy());
    let (asset, fee, bh, bn) = match first {
        Some(i) => (i.asset(), i.fee(), i.block_hash(), i.block_number()),
        None => (0, 0, [0; 4], 0),
    };
    let mut failing = vec![];
    if inners.iter().any(|i| !i.is_dummy() && i.block_hash() != bh) {
        failing.push("block");
    }
    if inners.iter().any(|i| !i.is_dummy() && i.asset() != asset) {
        failing.push("asset");
    }
    if inners.iter().any(|i| !i.is_dummy() && i.fee() != fee) {
        failing.push("fee");
    }
    let mut out = addr.to_vec();
    out.push(asset);
    out.push(fee);
    out.extend_from_slice(&bh);
    out.push(bn);
    out.push((2 * n * m) as u64);
    for i in inners {
        if i.is_dummy() {
            out.extend(std::iter::repeat(0).take(10 * n));
        } else {
            out.extend_from_slice(i.slots());
        }
    }
    for i in inners {
        if i.is_dummy() {
            out.extend(std::iter::repeat(0).take(4 * n));
        } else {
            out.extend_from_slice(i.nullifiers());
        }
    }
    PubRef {
        accept: failing.is_empty(),
        failing,
        output: out,
    }
}

pub struct PubCircuit {
    pub m: usize,
    pub n: usize,
    pub circuit: Circuit,
    pub targets: PublicBatchCircuitTargets,
}

impl PubCircuit {
    pub fn build(m: usize, n: usize, inner_common: &CommonCircuitData<F, D>, config: CircuitConfig) -> Result<PubCircuit, String> {
        if inner_common.num_public_inputs != 21 * n + 8 {
            return Err("inner common has the wrong PI count".into());
        }
        let mut builder = CircuitBuilder::<F, D>::new(config);
        let mut proofs = vec![];
        for _ in 0..m {
            proofs.push(builder.add_virtual_proof_with_pis(inner_common));
        }
        let addr: [Target; 4] = builder.add_virtual_targets(4).try_into().unwrap();
        let targets = PublicBatchCircuitTargets {
            private_batch_proofs: proofs,
            aggregator_address: addr,
        };
        verif_build_public_batch_constraints(&mut builder, &targets, m, n);
        let data = builder.build::<C>();
        let mut pc = PubCircuit {
            m,
            n,
            circuit: Circuit::new(data),
            targets,
        };
        let mut rng = Rng::new(100 + (m * 97 + n) as u64);
        let pools = make_pools(&mut rng);
        let inners: Vec<Inner> = (0..m).map(|_| gen_real_inner(&mut rng, &pools, n, 0, 0, 0)).collect();
        let inputs = pc.fill(&[1, 2, 3, 4], &inners);
        pc.circuit.learn_io(&inputs)?;
        Ok(pc)
    }

    pub fn fill(&self, addr: &D4, inners: &[Inner]) -> Vec<(Target, F)> {
        let mut v = Vec::with_capacity(4 + inners.len() * (21 * self.n + 8));
        for j in 0..4 {
            v.push((self.targets.aggregator_address[j], f(addr[j])));
        }
        for (i, inner) in inners.iter().enumerate() {
            for (t, x) in self.targets.private_batch_proofs[i].public_inputs.iter().zip(inner.pis.iter()) {
                v.push((*t, f(*x)));
            }
        }
        v
    }
}

pub struct PubPools {
    pub blocks: Vec<(D4, u64)>,
    pub assets: Vec<u64>,
    pub fees: Vec<u64>,
}

pub fn make_pools(rng: &mut Rng) -> PubPools {
    let mut b1: D4 = [rng.felt_edgy(), rng.felt_edgy(), rng.felt(), rng.felt_edgy()];
    if b1 == [0; 4] {
        b1[1] = 1;
    }
    let mut b2 = b1;
    let li = rng.usize(4);
    b2[li] = if b2[li] == P - 1 { 0 } else { b2[li] + 1 };
    if rng.bool() {
        b2 = crate::refm::add4(&b1, &crate::refm::structured_delta(rng));
    }
    if b2 == [0; 4] {
        b2[2] = 9;
    }
    PubPools {
        blocks: vec![(b1, rng.u32() as u64), (b2, rng.u32() as u64), (if rng.bool() { [0, 1, 0, 0] } else { crate::refm::structured_delta(rng) }, 3)],
        assets: vec![0, 1 + rng.below(50)],
        fees: vec![rng.below(10001), rng.below(10001)],
    }
}

fn rand_slots_and_nulls(rng: &mut Rng, n: usize, pis: &mut Vec<u64>) {
    for _ in 0..2 * n {
        if rng.chance(1, 3) {
            pis.extend_from_slice(&[0, 0, 0, 0, 0]);
        } else {
            pis.push(rng.u32() as u64);
            pis.extend_from_slice(&[rng.felt_edgy(), rng.felt(), rng.felt(), rng.felt_edgy()]);
        }
    }
    let mut nulls: Vec<D4> = (0..n).map(|_| [rng.felt_edgy(), rng.felt(), rng.felt(), rng.felt()]).collect();
    nulls.sort();
    for nl in nulls {
        pis.extend_from_slice(&nl);
    }
}

pub fn gen_real_inner(rng: &mut Rng, pools: &PubPools, n: usize, block: usize, asset: usize, fee: usize) -> Inner {
    let mut pis = vec![2 * n as u64, pools.assets[asset], pools.fees[fee]];
    pis.extend_from_slice(&pools.blocks[block].0);
    pis.push(pools.blocks[block].1);
    rand_slots_and_nulls(rng, n, &mut pis);
    pis.resize(21 * n + 8, 0);
    Inner { n, pis }
}

/// Dummy inner: zero block hash, everything else arbitrary (exempt from every check).
pub fn gen_dummy_inner(rng: &mut Rng, pools: &PubPools, n: usize) -> Inner {
    let wild = rng.chance(2, 3);
    let mut pis = vec![2 * n as u64];
    if wild {
        pis.push(if rng.bool() { rng.felt_edgy() } else { *rng.pick(&pools.assets) });
        pis.push(if rng.bool() { rng.felt_edgy() } else { *rng.pick(&pools.fees) });
        pis.extend_from_slice(&[0, 0, 0, 0]);
        pis.push(rng.felt_edgy());
        rand_slots_and_nulls(rng, n, &mut pis);
    } else {
        // genuine all-dummy private batch: zero slots, random replacement nullifiers
        pis.extend_from_slice(&[0, 10, 0, 0, 0, 0, 0]);
        pis.extend(std::iter::repeat(0).take(10 * n));
        let mut nulls: Vec<D4> = (0..n).map(|_| [rng.felt(), rng.felt(), rng.felt(), rng.felt()]).collect();
        nulls.sort();
        for nl in nulls {
            pis.extend_from_slice(&nl);
        }
    }
    pis.resize(21 * n + 8, 0);
    Inner { n, pis }
}

/// Vector of M inner statements, mostly consistent, each conjunct broken sometimes.
pub fn gen_inners(rng: &mut Rng, m: usize, n: usize) -> (D4, Vec<Inner>) {
    let pools = make_pools(rng);
    let addr: D4 = [rng.felt_edgy(), rng.felt(), rng.felt(), rng.felt_edgy()];
    let all_dummy = rng.chance(1, 30);
    let p_dummy = rng.below(3);
    let mut v = vec![];
    for _ in 0..m {
        if all_dummy || rng.below(4) < p_dummy {
            v.push(gen_dummy_inner(rng, &pools, n));
        } else {
            v.push(gen_real_inner(rng, &pools, n, 0, 0, 0));
        }
    }
    let i = rng.usize(m);
    if !v[i].is_dummy() {
        match rng.below(10) {
            0 => {
                let b = 1 + rng.usize(2);
                v[i].pis[3..7].copy_from_slice(&pools.blocks[b].0);
                v[i].pis[7] = pools.blocks[b].1;
            }
            1 => v[i].pis[1] = pools.assets[1],
            2 => v[i].pis[2] = pools.fees[1],
            3 => v[i].pis[7] = rng.u32() as u64, // block number differs (never cross-checked)
            _ => {}
        }
    }
    (addr, v)
}

pub fn inners_json(addr: &D4, inners: &[Inner]) -> Value {
    json!({"address": addr, "n": inners[0].n, "inners": inners.iter().map(|i| i.pis.clone()).collect::<Vec<_>>()})
}

pub fn inners_from_json(v: &Value) -> Option<(D4, Vec<Inner>)> {
    let a: Vec<u64> = v["address"].as_array()?.iter().map(|x| x.as_u64().unwrap_or(0)).collect();
    let n = v["n"].as_u64()? as usize;
    let inners = v["inners"]
        .as_array()?
        .iter()
        .map(|p| Inner {
            n,
            pis: p.as_array().unwrap().iter().map(|x| x.as_u64().unwrap_or(0)).collect(),
        })
        .collect();
    Some(([a[0], a[1], a[2], a[3]], inners))
}
