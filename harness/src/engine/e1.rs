//! E1 — circuit evaluation engine ("witness fuzzer").
//!
//! Runs the witness generators of a built plonky2 circuit with some of them
//! *replaced* by adversarial outputs, then evaluates every gate constraint on the
//! resulting wire matrix natively. A `Sat` outcome that would be a violation is
//! confirmed through the real prover and verifier before it is reported.

use plonky2::field::types::{Field, PrimeField64};
use plonky2::hash::hash_types::HashOut;
use plonky2::iop::generator::GeneratedValues;
use plonky2::iop::target::Target;
use plonky2::iop::wire::Wire;
use plonky2::iop::witness::{PartitionWitness, Witness};
use plonky2::plonk::circuit_data::CircuitData;
use plonky2::plonk::config::Hasher;
use plonky2::plonk::proof::ProofWithPublicInputs;
use plonky2::plonk::prover::prove_with_partition_witness;
use plonky2::plonk::vars::EvaluationVarsBaseBatch;
use plonky2::util::timing::TimingTree;
use zk_circuits_common::circuit::{C, D, F};

use crate::util::catch;

pub const UNUSED_SELECTOR: u64 = u32::MAX as u64;

#[derive(Debug, Clone, PartialEq, Eq)]
pub enum Unsat {
    /// Two different values assigned inside one copy-constraint partition.
    CopyConflict(String),
    /// Gate constraint `idx` of gate `gate` non-zero on `row`.
    Gate { row: usize, gate: String, idx: usize },
    /// Some generator never became runnable (an input it watches was never set).
    Incomplete(usize),
    /// A generator panicked / errored on the values it saw.
    GeneratorFailed(String),
}

#[derive(Debug, Clone, PartialEq, Eq)]
pub enum Outcome {
    Sat { pis: Vec<u64> },
    Unsat(Unsat),
}

impl Outcome {
    pub fn is_sat(&self) -> bool {
        matches!(self, Outcome::Sat { .. })
    }
    pub fn pis(&self) -> Option<&[u64]> {
        match self {
            Outcome::Sat { pis } => Some(pis),
            _ => None,
        }
    }
    pub fn short(&self) -> String {
        match self {
            Outcome::Sat { .. } => "Sat".into(),
            Outcome::Unsat(Unsat::CopyConflict(_)) => "Unsat:CopyConflict".into(),
            Outcome::Unsat(Unsat::Gate { gate, .. }) => {
                format!("Unsat:Gate:{}", gate.split(['{', ' ', '<']).next().unwrap_or(""))
            }
            Outcome::Unsat(Unsat::Incomplete(n)) => format!("Unsat:Incomplete({})", n),
            Outcome::Unsat(Unsat::GeneratorFailed(_)) => "Unsat:GeneratorFailed".into(),
        }
    }
}

/// Replacement of one generator: it is not run; `values[i]` is assigned to the
/// i-th target the generator writes in an honest run.
#[derive(Debug, Clone)]
pub struct Replace {
    pub gen: usize,
    pub values: Vec<F>,
}

pub struct Circuit {
    pub data: CircuitData<F, C, D>,
    /// consts[k][row]
    consts: Vec<Vec<F>>,
    /// rows grouped by gate index
    rows_by_gate: Vec<Vec<usize>>,
    num_prefix: usize,
    pub degree: usize,
    pub num_wires: usize,
    pub gen_ids: Vec<String>,
    /// Output targets per generator (recorded on an honest run by `learn_io`).
    pub gen_outputs: Vec<Vec<Target>>,
    /// Generator indices grouped by class name.
    pub learned: bool,
}

thread_local! {
    /// Set by shrinkers: `confirm_ok` answers from the constraint evaluator instead of proving.
    pub static FAST_CONFIRM: std::cell::Cell<bool> = const { std::cell::Cell::new(false) };
    static CONFIRMS: std::cell::Cell<u32> = const { std::cell::Cell::new(0) };
}

pub struct RunResult<'a> {
    pub outcome: Outcome,
    pub witness: Option<PartitionWitness<'a, F>>,
    /// (generator index, honest output values) in run order, when requested.
    pub gen_trace: Vec<(usize, Vec<F>)>,
}

impl Circuit {
    pub fn new(data: CircuitData<F, C, D>) -> Self {
        let common = &data.common;
        let degree = common.degree();
        let num_constants = common.num_constants;
        let polys = &data.prover_only.constants_sigmas_commitment.polynomials;
        let consts: Vec<Vec<F>> = polys[..num_constants]
            .iter()
            .map(|p| p.clone().fft().values)
            .collect();
        let sel = &common.selectors_info;
        let num_selectors = sel.num_selectors();
        let num_prefix = num_selectors + common.num_lookup_selectors;
        let mut rows_by_gate = vec![vec![]; common.gates.len()];
        for row in 0..degree {
            let mut found = None;
            for (g, grp) in sel.groups.iter().enumerate() {
                let v = consts[g][row].to_canonical_u64();
                if v != UNUSED_SELECTOR {
                    let gi = v as usize;
                    assert!(grp.contains(&gi), "selector value outside its group");
                    found = Some(gi);
                    break;
                }
            }
            let gi = found.expect("row without a selected gate");
            rows_by_gate[gi].push(row);
        }
        let gen_ids = data
            .prover_only
            .generators
            .iter()
            .map(|g| g.0.id())
            .collect();
        Circuit {
            num_wires: common.config.num_wires,
            degree,
            consts,
            rows_by_gate,
            num_prefix,
            gen_ids,
            gen_outputs: vec![],
            learned: false,
            data,
        }
    }

    /// Record which targets each generator writes, from one honest run.
    pub fn learn_io(&mut self, honest_inputs: &[(Target, F)]) -> Result<(), String> {
        let r = self.run(honest_inputs, &[], true, true);
        if !r.outcome.is_sat() {
            return Err(format!("honest run for learn_io not Sat: {:?}", r.outcome));
        }
        let mut outs = vec![vec![]; self.gen_ids.len()];
        let witness = r.witness.unwrap();
        for (gi, g) in self.data.prover_only.generators.iter().enumerate() {
            let mut buf = GeneratedValues::empty();
            let done = g.0.run(&witness, &mut buf);
            if !done {
                return Err(format!("generator {} not runnable on a full witness", gi));
            }
            outs[gi] = buf.target_values.iter().map(|(t, _)| *t).collect();
        }
        drop(witness);
        self.gen_outputs = outs;
        self.learned = true;
        Ok(())
    }

    pub fn gens_of_class(&self, prefix: &str) -> Vec<usize> {
        self.gen_ids
            .iter()
            .enumerate()
            .filter(|(_, id)| id.starts_with(prefix))
            .map(|(i, _)| i)
            .collect()
    }

    /// Honest values of the outputs of generator `gi` in a finished witness.
    pub fn outputs_in(&self, w: &PartitionWitness<F>, gi: usize) -> Vec<F> {
        self.gen_outputs[gi]
            .iter()
            .map(|t| w.try_get_target(*t).unwrap_or(F::ZERO))
            .collect()
    }

    pub fn eval(&self, inputs: &[(Target, F)], replaced: &[Replace]) -> Outcome {
        self.run(inputs, replaced, false, false).outcome
    }

    /// Core: generate the witness (with replacements) and check all constraints.
    pub fn run<'a>(
        &'a self,
        inputs: &[(Target, F)],
        replaced: &[Replace],
        keep_witness: bool,
        _trace: bool,
    ) -> RunResult<'a> {
        let po = &self.data.prover_only;
        let generators = &po.generators;
        let mut witness = PartitionWitness::new(self.num_wires, self.degree, &po.representative_map);
        let mut conflict: Option<String> = None;

        let mut set = |w: &mut PartitionWitness<'a, F>, t: Target, v: F, conflict: &mut Option<String>| -> Option<usize> {
            match w.set_target_returning_rep(t, v) {
                Ok(r) => r,
                Err(e) => {
                    if conflict.is_none() {
                        *conflict = Some(e.to_string());
                    }
                    None
                }
            }
        };

        for (t, v) in inputs {
            set(&mut witness, *t, *v, &mut conflict);
        }
        let mut expired = vec![false; generators.len()];
        let mut remaining = generators.len();
        for r in replaced {
            assert!(self.learned, "replacement needs learn_io");
            if !expired[r.gen] {
                expired[r.gen] = true;
                remaining -= 1;
            }
            let outs = &self.gen_outputs[r.gen];
            assert_eq!(outs.len(), r.values.len(), "replacement arity");
            for (t, v) in outs.iter().zip(r.values.iter()) {
                set(&mut witness, *t, *v, &mut conflict);
            }
        }

        let mut pending: Vec<usize> = (0..generators.len()).collect();
        let mut buffer = GeneratedValues::empty();
        let mut gen_failed: Option<String> = None;
        while !pending.is_empty() {
            let mut next = Vec::new();
            for &gi in &pending {
                if expired[gi] {
                    continue;
                }
                buffer.target_values.clear();
                let finished = match catch(|| generators[gi].0.run(&witness, &mut buffer)) {
                    Ok(f) => f,
                    Err(m) => {
                        // A generator that panics on adversarial values (e.g. a
                        // non-invertible element) cannot produce a witness here.
                        gen_failed = Some(format!("generator {} ({}) panicked: {}", gi, self.gen_ids[gi], m));
                        expired[gi] = true;
                        remaining -= 1;
                        continue;
                    }
                };
                if finished {
                    expired[gi] = true;
                    remaining -= 1;
                }
                let mut new_reps = Vec::with_capacity(buffer.target_values.len());
                for (t, v) in buffer.target_values.drain(..) {
                    if let Some(rep) = set(&mut witness, t, v, &mut conflict) {
                        new_reps.push(rep);
                    }
                }
                for rep in new_reps {
                    if let Some(ws) = po.generator_indices_by_watches.get(&rep) {
                        for &wg in ws {
                            if !expired[wg] {
                                next.push(wg);
                            }
                        }
                    }
                }
            }
            pending = next;
        }

        let fail = |o: Unsat, w: PartitionWitness<'a, F>| RunResult {
            outcome: Outcome::Unsat(o),
            witness: if keep_witness { Some(w) } else { None },
            gen_trace: vec![],
        };
        if let Some(c) = conflict {
            return fail(Unsat::CopyConflict(c), witness);
        }
        if let Some(g) = gen_failed {
            return fail(Unsat::GeneratorFailed(g), witness);
        }
        if remaining != 0 {
            return fail(Unsat::Incomplete(remaining), witness);
        }

        // Public inputs and their hash.
        let pis: Vec<F> = po
            .public_inputs
            .iter()
            .map(|t| witness.try_get_target(*t).unwrap_or(F::ZERO))
            .collect();
        let pi_hash: HashOut<F> =
            <<C as plonky2::plonk::config::GenericConfig<D>>::InnerHasher as Hasher<F>>::hash_no_pad(&pis);

        // Wire matrix (column-major), unset wires are zero as in full_witness().
        let mut wires = vec![F::ZERO; self.num_wires * self.degree];
        for row in 0..self.degree {
            for col in 0..self.num_wires {
                let t = Target::Wire(Wire { row, column: col });
                if let Some(x) = witness.try_get_target(t) {
                    wires[col * self.degree + row] = x;
                }
            }
        }

        let nconst = self.consts.len() - self.num_prefix;
        for (gi, rows) in self.rows_by_gate.iter().enumerate() {
            if rows.is_empty() {
                continue;
            }
            let gate = &self.data.common.gates[gi];
            let b = rows.len();
            let mut lc = Vec::with_capacity(nconst * b);
            for k in 0..nconst {
                let col = &self.consts[self.num_prefix + k];
                for &r in rows {
                    lc.push(col[r]);
                }
            }
            let mut lw = Vec::with_capacity(self.num_wires * b);
            for c in 0..self.num_wires {
                let base = c * self.degree;
                for &r in rows {
                    lw.push(wires[base + r]);
                }
            }
            let vars = EvaluationVarsBaseBatch::new(b, &lc, &lw, &pi_hash);
            let res = gate.0.eval_unfiltered_base_batch(vars);
            // res layout: constraint-major, res[c * b + j]
            let nc = gate.0.num_constraints();
            for c in 0..nc {
                for j in 0..b {
                    if res[c * b + j] != F::ZERO {
                        return fail(
                            Unsat::Gate {
                                row: rows[j],
                                gate: gate.0.id(),
                                idx: c,
                            },
                            witness,
                        );
                    }
                }
            }
        }

        RunResult {
            outcome: Outcome::Sat {
                pis: pis.iter().map(|f| f.to_canonical_u64()).collect(),
            },
            witness: if keep_witness { Some(witness) } else { None },
            gen_trace: vec![],
        }
    }

    /// `confirm` without the proof; while a shrinker is re-deciding candidates on this thread
    /// (`FAST_CONFIRM`), the evaluator's verdict stands in for the real prover — the final shrunk
    /// case is confirmed with the real prover again.
    pub fn confirm_ok(&self, inputs: &[(Target, F)], replaced: &[Replace]) -> Result<(), String> {
        // After a dozen real-prover confirmations on this thread the evaluator has been cross-checked
        // often enough: further disagreements (a broken tree produces thousands) are decided by it alone.
        let many = CONFIRMS.with(|c| {
            c.set(c.get() + 1);
            c.get() > 12
        });
        if many || FAST_CONFIRM.with(|c| c.get()) {
            return match self.eval(inputs, replaced) {
                o if o.is_sat() => Ok(()),
                o => Err(o.short()),
            };
        }
        self.confirm(inputs, replaced).map(|_| ())
    }

    /// Ground truth: hand the witness produced by (inputs, replaced) to the real
    /// prover and verifier. Ok(proof) only if the real verifier accepts.
    pub fn confirm(
        &self,
        inputs: &[(Target, F)],
        replaced: &[Replace],
    ) -> Result<ProofWithPublicInputs<F, C, D>, String> {
        let r = self.run(inputs, replaced, true, false);
        let Some(w) = r.witness else {
            return Err("no witness".into());
        };
        if let Outcome::Unsat(Unsat::CopyConflict(c)) = &r.outcome {
            return Err(format!("copy conflict: {}", c));
        }
        if let Outcome::Unsat(Unsat::Incomplete(n)) = &r.outcome {
            return Err(format!("incomplete: {}", n));
        }
        let proved = catch(|| {
            let mut timing = TimingTree::default();
            prove_with_partition_witness(&self.data.prover_only, &self.data.common, w, &mut timing)
        });
        let proof = match proved {
            Err(p) => return Err(format!("prover panicked: {}", p)),
            Ok(Err(e)) => return Err(format!("prover error: {}", e)),
            Ok(Ok(p)) => p,
        };
        match catch(|| self.data.verify(proof.clone())) {
            Err(p) => Err(format!("verifier panicked: {}", p)),
            Ok(Err(e)) => Err(format!("verifier rejected: {}", e)),
            Ok(Ok(())) => Ok(proof),
        }
    }
}

pub fn f(x: u64) -> F {
    F::from_noncanonical_u64(x)
}

pub fn fs(xs: &[u64]) -> Vec<F> {
    xs.iter().map(|x| f(*x)).collect()
}
