pub mod e1;
pub mod hints;
