//! Class-specific adversarial alternatives for the outputs of hint generators
//! (generators whose outputs are not forced by their own gate alone).

use plonky2::field::types::{Field, PrimeField64};
use zk_circuits_common::circuit::F;

use super::e1::{f, Circuit, Outcome, Replace};
use crate::refm::P;
use crate::util::rng::Rng;
use plonky2::iop::target::Target;
use plonky2::iop::witness::PartitionWitness;

#[derive(Clone, Copy, Debug, PartialEq, Eq, Hash)]
pub enum HintClass {
    Equality,
    LowHigh,
    WireSplit,
    BaseSplit,
    Other,
}

pub fn class_of(id: &str) -> HintClass {
    if id.starts_with("EqualityGenerator") {
        HintClass::Equality
    } else if id.starts_with("LowHighGenerator") {
        HintClass::LowHigh
    } else if id.starts_with("WireSplitGenerator") || id.starts_with("SplitGenerator") {
        HintClass::WireSplit
    } else if id.starts_with("BaseSplitGenerator") || id.starts_with("BaseSumGenerator") {
        HintClass::BaseSplit
    } else {
        HintClass::Other
    }
}

pub fn is_hint(id: &str) -> bool {
    class_of(id) != HintClass::Other
}

#[derive(Clone, Debug)]
pub struct Alt {
    pub desc: String,
    pub values: Vec<F>,
    /// The alternative is a numerically valid different witness for the same
    /// relation (e.g. a different inverse for an equal pair, or a p-alias).
    pub numerically_plausible: bool,
}

fn u(x: F) -> u64 {
    x.to_canonical_u64()
}

/// Alternatives for generator `gi` given its honest outputs.
pub fn alternatives(class: HintClass, honest: &[F], rng: &mut Rng) -> Vec<Alt> {
    let mut out = vec![];
    let mut push = |desc: &str, values: Vec<F>, plausible: bool| {
        if values != honest {
            out.push(Alt {
                desc: desc.to_string(),
                values,
                numerically_plausible: plausible,
            });
        }
    };
    match class {
        HintClass::Equality if honest.len() == 2 => {
            let eq = u(honest[0]);
            let inv = honest[1];
            if eq == 0 {
                // x != y, inv = 1/(x-y)
                push("eq:flip,keep-inv", vec![f(1), inv], false);
                push("eq:flip,inv=0", vec![f(1), f(0)], false);
                push("eq:flip,inv=rand", vec![f(1), f(rng.felt())], false);
                push("eq:keep,inv=0", vec![f(0), f(0)], false);
                push("eq:keep,inv=rand", vec![f(0), f(rng.felt())], false);
                push("eq:2,keep-inv", vec![f(2), inv], false);
                push("eq:p-1,keep-inv", vec![f(P - 1), inv], false);
            } else {
                // x == y: inv is free (diff*inv = 0 = not_equal)
                push("eq:flip,inv=0", vec![f(0), f(0)], false);
                push("eq:flip,inv=1", vec![f(0), f(1)], false);
                push("eq:flip,inv=rand", vec![f(0), f(rng.felt())], false);
                push("eq:keep,inv=rand", vec![f(1), f(rng.felt())], true);
                push("eq:2,inv=0", vec![f(2), f(0)], false);
            }
        }
        HintClass::LowHigh if honest.len() == 2 => {
            let lo = u(honest[0]);
            let hi = u(honest[1]);
            // integer assuming a 32-bit low part (all uses in the repo split at 32)
            let v = (lo as u128) + ((hi as u128) << 32);
            let alias = v + P as u128;
            if alias < (1u128 << 64) {
                let a = alias as u64;
                push("lh:p-alias", vec![f(a & 0xFFFF_FFFF), f(a >> 32)], true);
            }
            if hi >= 1 {
                push(
                    "lh:borrow",
                    vec![f(lo + (1u64 << 32)), f(hi - 1)],
                    false,
                );
            }
            if lo >= (1 << 32) || hi < u64::MAX {
                // carry: (lo - 2^32 mod p, hi + 1)
                let lo2 = F::from_canonical_u64(lo) - F::from_canonical_u64(1 << 32);
                push("lh:carry", vec![lo2, f(hi.wrapping_add(1))], false);
            }
            // field-compensated pairs: lo' arbitrary 32-bit, hi' solved in the FIELD from
            // v = lo' + hi' * 2^32 (satisfies the recombination constraint exactly; only the
            // range checks on lo and hi can reject it)
            {
                let two32 = F::from_canonical_u64(1 << 32);
                let vf = F::from_canonical_u64(lo) + F::from_canonical_u64(hi) * two32;
                let inv = two32.inverse();
                for (nm, lo2) in [("lh:field-comp,lo+1", lo.wrapping_add(1) & 0xFFFF_FFFF), ("lh:field-comp,lo-1", lo.wrapping_sub(1) & 0xFFFF_FFFF), ("lh:field-comp,lo=0", 0), ("lh:field-comp,lo=rand32", rng.u32() as u64)] {
                    if lo2 != lo {
                        let hi2 = (vf - F::from_canonical_u64(lo2)) * inv;
                        push(nm, vec![f(lo2), hi2], false);
                    }
                }
            }
            push("lh:swap", vec![f(hi), f(lo)], false);
            push("lh:flip-hi-bit0", vec![f(lo), f(hi ^ 1)], false);
            push("lh:rand", vec![f(rng.felt()), f(rng.felt())], false);
            push("lh:zero", vec![f(0), f(0)], false);
        }
        HintClass::WireSplit => {
            let n = honest.len();
            if n >= 1 {
                let mut a = honest.to_vec();
                a[0] = a[0] + F::ONE;
                push("ws:sum0+1", a, false);
                let mut b = honest.to_vec();
                b[n - 1] = b[n - 1] - F::ONE;
                push("ws:last-1", b, false);
                let mut c = honest.to_vec();
                c[0] = f(u(c[0]).wrapping_add(P) % u64::MAX); // arbitrary other value
                push("ws:garbage", c, false);
                let z = vec![F::ZERO; n];
                push("ws:zero", z, false);
                if n >= 2 {
                    // move one unit of the higher gate into the lower one (x base)
                    let mut d = honest.to_vec();
                    d[1] = d[1] - F::ONE;
                    d[0] = d[0] + F::from_canonical_u64(1u64 << 63);
                    push("ws:redistribute", d, false);
                }
            }
        }
        HintClass::BaseSplit => {
            let n = honest.len();
            if n >= 1 {
                let i = rng.usize(n);
                let mut a = honest.to_vec();
                a[i] = F::ONE - a[i];
                push("bs:flip-one", a, false);
                let mut b = honest.to_vec();
                b[0] = F::ONE - b[0];
                push("bs:flip-lsb", b, false);
                let mut c = honest.to_vec();
                c[n - 1] = F::ONE - c[n - 1];
                push("bs:flip-msb", c, false);
                let mut d = honest.to_vec();
                d[i] = F::TWO;
                push("bs:two", d, false);
                // bits of (value + p) when it fits in n bits
                let mut val: u128 = 0;
                let mut boolean = true;
                for (k, bit) in honest.iter().enumerate() {
                    let bv = u(*bit);
                    if bv > 1 {
                        boolean = false;
                    }
                    if k < 127 {
                        val += (bv as u128 & 1) << k;
                    }
                }
                if boolean && n <= 64 {
                    let alias = val + P as u128;
                    if n == 64 && alias < (1u128 << 64) || (n < 64 && alias < (1u128 << n)) {
                        let bits: Vec<F> = (0..n).map(|k| f(((alias >> k) & 1) as u64)).collect();
                        push("bs:p-alias", bits, true);
                    }
                }
                // two-bit exchange preserving parity of the sum: (…1,0…) -> (…0,… with 2 lower)
                if n >= 2 {
                    let j = rng.usize(n - 1);
                    let mut e = honest.to_vec();
                    if u(e[j + 1]) == 1 && u(e[j]) == 0 {
                        e[j + 1] = F::ZERO;
                        e[j] = F::TWO;
                        push("bs:carry-down", e, false);
                    }
                }
            }
        }
        _ => {
            // deterministic generator: any change must be caught by its gate
            if !honest.is_empty() {
                let mut a = honest.to_vec();
                let i = rng.usize(a.len());
                a[i] = a[i] + F::ONE;
                push("det:+1", a, false);
            }
        }
    }
    out
}

pub struct SweepHit {
    pub gen: usize,
    pub gen_id: String,
    pub alt: Alt,
    pub outcome: Outcome,
}

/// Single-generator sweep: for each generator in `gens`, replace it by each
/// alternative and evaluate. `on` is called for every evaluated alternative.
/// `base_witness` must come from a run with the same `inputs` and `base_repl`.
pub fn sweep<'a>(
    circ: &Circuit,
    inputs: &[(Target, F)],
    base_repl: &[Replace],
    base_witness: &PartitionWitness<'a, F>,
    gens: &[usize],
    rng: &mut Rng,
    mut on: impl FnMut(SweepHit),
) -> usize {
    let mut n = 0;
    for &gi in gens {
        if base_repl.iter().any(|r| r.gen == gi) {
            continue;
        }
        let honest = circ.outputs_in(base_witness, gi);
        let class = class_of(&circ.gen_ids[gi]);
        for alt in alternatives(class, &honest, rng) {
            let mut repl = base_repl.to_vec();
            repl.push(Replace {
                gen: gi,
                values: alt.values.clone(),
            });
            let outcome = circ.eval(inputs, &repl);
            n += 1;
            on(SweepHit {
                gen: gi,
                gen_id: circ.gen_ids[gi].clone(),
                alt,
                outcome,
            });
        }
    }
    n
}

/// Pair sweep: two hint generators replaced at once (coordinated lies). Pairs are taken
/// between neighbours in creation order (gadgets allocate their related hints back to back)
/// and at random; one alternative per member is drawn for each pair.
pub fn sweep_pairs<'a>(
    circ: &Circuit,
    inputs: &[(Target, F)],
    base_witness: &PartitionWitness<'a, F>,
    gens: &[usize],
    rng: &mut Rng,
    n_pairs: usize,
    mut on: impl FnMut(usize, usize, &Alt, &Alt, Outcome),
) -> usize {
    if gens.len() < 2 {
        return 0;
    }
    let mut n = 0;
    for _ in 0..n_pairs {
        let a = rng.usize(gens.len());
        let b = if rng.chance(2, 3) { (a + 1 + rng.usize(3)).min(gens.len() - 1) } else { rng.usize(gens.len()) };
        if a == b {
            continue;
        }
        let (ga, gb) = (gens[a], gens[b]);
        let alts_a = alternatives(class_of(&circ.gen_ids[ga]), &circ.outputs_in(base_witness, ga), rng);
        let alts_b = alternatives(class_of(&circ.gen_ids[gb]), &circ.outputs_in(base_witness, gb), rng);
        if alts_a.is_empty() || alts_b.is_empty() {
            continue;
        }
        let xa = alts_a[rng.usize(alts_a.len())].clone();
        let xb = alts_b[rng.usize(alts_b.len())].clone();
        let repl = vec![Replace { gen: ga, values: xa.values.clone() }, Replace { gen: gb, values: xb.values.clone() }];
        let outcome = circ.eval(inputs, &repl);
        n += 1;
        on(ga, gb, &xa, &xb, outcome);
    }
    n
}

/// All hint-class generator indices of a circuit.
pub fn hint_gens(circ: &Circuit) -> Vec<usize> {
    circ.gen_ids
        .iter()
        .enumerate()
        .filter(|(_, id)| is_hint(id))
        .map(|(i, _)| i)
        .collect()
}

/// Hint generators whose outputs or (transitively, one step) inputs touch any of
/// the given targets' partitions. Used to focus a sweep on an attacked scalar.
pub fn gens_writing_near(circ: &Circuit, _targets: &[Target]) -> Vec<usize> {
    hint_gens(circ)
}
