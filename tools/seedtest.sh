#!/usr/bin/env bash
# tools/seedtest.sh <seed-dir-name> <check id> [tier]   — apply /verif/seeded/<name>/patch.diff to /repo,
# run the check, always revert. Prints the tail of the check output and its exit code.
set -u
NAME="$1"; ID="$2"; TIER="${3:-quick}"
P="/verif/seeded/$NAME/patch.diff"
[ -f "$P" ] || { echo "no patch $P"; exit 2; }
if [ -n "$(git -C /repo status --porcelain)" ]; then echo "/repo not clean"; exit 2; fi
git -C /repo apply "$P" || { echo "patch does not apply"; exit 2; }
trap 'git -C /repo checkout -- . ; git -C /repo clean -fdq -- wormhole common 2>/dev/null' EXIT
cd /verif && ./check "$ID" "$TIER" > /tmp/seedtest.$$.log 2>&1
RC=$?
tail -n 6 /tmp/seedtest.$$.log
rm -f /tmp/seedtest.$$.log
echo "seedtest $NAME $ID $TIER -> exit $RC"
exit $RC
