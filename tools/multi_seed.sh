#!/usr/bin/env bash
# tools/multi_seed.sh <seed>...  — every registered quick check under each seed; one line per run.
# Under `vp run --with-repo` the checks build against the repository snapshot ($VP_RUN_REPO), so that
# experiments in /repo (seeded patches) cannot contaminate the run.
[ -n "${VP_RUN_REPO:-}" ] && export VERIF_REPO="$VP_RUN_REPO"
IDS=$(python3 -c "import json;print(' '.join(c['property_id'] for c in json.load(open('MANIFEST.json'))['checks']))")
for seed in "$@"; do
  for id in $IDS; do
    s=$(date +%s)
    out=$(VERIF_SEED=$seed ./check "$id" quick 2>&1 | grep -E "^(OK|VIOLATION|KNOWN-FINDING|infra)" | head -3 | tr '\n' ' ')
    echo "seed=$seed $id $(( $(date +%s) - s ))s :: $out"
  done
done
