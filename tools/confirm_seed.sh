#!/usr/bin/env bash
# tools/confirm_seed.sh <ID> [extra existing-test command...]
# Re-confirms an independently produced seeded change in its scratch worktree /tmp/wt-<ID>:
#   1. SEED/patch.diff applies to a clean checkout and equals the source change
#   2. the demonstration FAILS with the patch and PASSES without it
#   3. (optional) the given existing-test command passes with the patch
# Writes /tmp/confirm-<ID>.log and prints a one-line verdict.
set -u
ID="$1"; shift
WT="/tmp/wt-$ID"
LOG="/tmp/confirm-$ID.log"
export CARGO_NET_OFFLINE=true CARGO_BUILD_JOBS=6
cd "$WT" || exit 2
: > "$LOG"
DEMO_CMD="$(python3 -c "import json;print(json.load(open('SEED/meta.json'))['demo_cmd'])")"
DEMO_CMD="${DEMO_CMD//SEED\//$WT/SEED/}"
# normalise: start from a clean tree + patch
git checkout -q -- . 2>/dev/null
if ! git apply --check SEED/patch.diff 2>>"$LOG"; then echo "confirm $ID: patch does not apply to a clean tree"; exit 1; fi
git apply SEED/patch.diff
echo "== demo WITH patch: $DEMO_CMD" >> "$LOG"
( eval "$DEMO_CMD" ) >> "$LOG" 2>&1; WITH=$?
EXTRA=0
if [ $# -gt 0 ]; then
  echo "== existing tests WITH patch: $*" >> "$LOG"
  ( eval "$*" ) >> "$LOG" 2>&1; EXTRA=$?
fi
git apply -R SEED/patch.diff
echo "== demo WITHOUT patch" >> "$LOG"
( eval "$DEMO_CMD" ) >> "$LOG" 2>&1; WITHOUT=$?
git apply SEED/patch.diff
echo "confirm $ID: demo with patch exit=$WITH (want !=0), without patch exit=$WITHOUT (want 0), existing tests with patch exit=$EXTRA (want 0)"
[ $WITH -ne 0 ] && [ $WITHOUT -eq 0 ] && [ $EXTRA -eq 0 ]
