#!/usr/bin/env python3
"""Prints the prompt given to an independent sub-agent that seeds a property-breaking change.
Only the property text goes in; nothing about /verif's checks."""
import json, sys
pid = sys.argv[1]
# optional: worktree suffix (second-round seeds, e.g. "b") and a description of earlier changes to avoid
suffix = sys.argv[2] if len(sys.argv) > 2 else ""
avoid = sys.argv[3] if len(sys.argv) > 3 else ""
p = None
for l in open('/verif/properties.jsonl'):
    q = json.loads(l)
    if q['id'] == pid:
        p = q
wt = f"/tmp/wt-{pid}{suffix}"
avoid_txt = (" Earlier rounds already produced the following kinds of change for this property; choose a DIFFERENT mechanism and a different code site where possible: " + avoid) if avoid else ""
print(f"""You are helping to evaluate a verification effort by playing the role of a developer who introduces a subtle regression.

Repository: a scratch git worktree of Quantus-Network/qp-zk-circuits (Rust; Plonky2 zero-knowledge circuits for Quantus Wormhole: leaf spend proofs, private/public recursive batch aggregation, proof pool) at {wt}. Work ONLY inside {wt}. Never read, write or cd into /repo or /verif (they are off limits; do not look at them at all). The sandbox has no network: always pass --offline to cargo (or set CARGO_NET_OFFLINE=true). Use at most 4 build jobs (export CARGO_BUILD_JOBS=4) because other work shares this machine. Code guarded by `#[cfg(quantus_network_qp_zk_circuits_verif)]` is test instrumentation that is normally compiled out: leave it alone and do not rely on it.

The property that should hold for this code base:

  id: {p['id']}
  title: {p['title']}
  statement: {p['statement']}
  quantified over: {p['quantifier']['text']}
  files the property is anchored in: {', '.join(p['anchors']['files'])}

Your task: make a change to the repository source (not to tests) that BREAKS this property while the code still compiles and the repository's existing test suite still passes. Aim for a realistic regression — the kind of plausible refactor, optimisation, off-by-one, dropped or reordered check, or weakened constraint a maintainer could merge — NOT an obviously sabotaged one. It must need something specific to manifest: an unusual input or witness, a multi-step sequence of operations, a fault at a particular point, or two cooperating sites that each look fine alone. A change that ordinary use (or any existing test) would expose at once is not useful. Keep the change small (one or two sites).{avoid_txt}

The existing suite: /root/.vp/BASELINE.json lists under "stable_pass" the tests that pass on the unchanged tree (the "always_fail" ones fail only because they exceed a time limit in debug builds; ignore those). You do not need to run all 252 (that takes ~30 min); run every stable_pass test of the crates you touched and of the crates that depend on the changed code path (e.g. `cargo test --offline -p <crate> --lib`, and `cargo test --offline -p tests <filter>` for the integration crate), and make sure they all still pass with your change. If a stable_pass test fails with your change, pick a different change.

Then write a demonstration: a new test file or small program (it may use only crates already in the workspace / cargo cache) that FAILS (or shows the violated property) with your change applied and PASSES on the unchanged tree. Verify both directions yourself: flip with `git diff > {wt}/SEED/flip.diff; git apply -R {wt}/SEED/flip.diff; ... ; git apply {wt}/SEED/flip.diff` (do NOT use `git stash`: the stash is shared between all worktrees of this repository and other people work in sibling worktrees). Circuit-level changes can be demonstrated by producing a proof that verifies for a statement the property forbids, or a witness/proof for which outputs differ from what the property says; release mode (`--release`) makes proving fast.

Deliverables, all under {wt}/SEED/ (create it; it must NOT be part of patch.diff):
  - patch.diff : `git diff` of the source change only (no demo, no SEED), applicable with `git apply` at the repository root
  - demo/      : the demonstration file(s) plus a README.md saying where to copy them and the exact command to run
  - meta.json  : {{"property": "{pid}", "summary": "...what was changed and why it breaks the property...", "needs_to_manifest": "...the specific input/sequence/witness needed...", "files_changed": [...], "existing_tests_run": ["command -> result", ...], "demo_cmd": "..."}}
Leave the worktree with the change applied. When done, reply with a short summary (what you changed, what it needs to manifest, what you ran). Do not write anything outside {wt}.""")
