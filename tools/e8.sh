#!/usr/bin/env bash
# tools/e8.sh <ID> <target> [runs]  — coverage-guided campaign (cargo-fuzz / libFuzzer) with the
# property's oracle inside the target. Prints "VIOLATION property=<ID> replay=<file>" and exits 1 on a
# crash; exits 0 otherwise (also when the nightly fuzz build is unavailable: reported, not a verdict).
# Appends campaign statistics to /verif/evidence/<ID>.json under coverage.e8.
set -u
HERE="$(cd "$(dirname "${BASH_SOURCE[0]}")/.." && pwd)"
ID="$1"; TARGET="$2"; RUNS="${3:-2000000}"
SEED="${VERIF_SEED:-20260921}"; [ "$SEED" = "0" ] && SEED=1
export CARGO_NET_OFFLINE=true RUSTFLAGS="--cfg quantus_network_qp_zk_circuits_verif"
FT="${VERIF_TARGET:-$HERE/target}/fuzz"
LOG="$(mktemp)"; WORK="$(mktemp -d)"
trap 'rm -rf "$LOG" "$WORK"' EXIT
note() { python3 - "$HERE/evidence/$ID.json" "$@" <<'PY'
import json,sys
p=sys.argv[1]; 
try: d=json.load(open(p))
except Exception: sys.exit(0)
d.setdefault("coverage",{})["e8"]=dict(a.split("=",1) for a in sys.argv[2:])
json.dump(d,open(p,"w"),indent=2)
PY
}
if ! cargo +nightly fuzz build --fuzz-dir "$HERE/fuzz" --target-dir "$FT" "$TARGET" >"$LOG" 2>&1; then
  echo "E8: fuzz build unavailable for $TARGET (thorough tier continues without it)" >&2
  note "status=build-unavailable" "target=$TARGET"
  exit 0
fi
mkdir -p "$WORK/corpus" "$WORK/artifacts"
cp -r "$HERE/fuzz/corpus/$TARGET/." "$WORK/corpus/" 2>/dev/null
cargo +nightly fuzz run --fuzz-dir "$HERE/fuzz" --target-dir "$FT" "$TARGET" "$WORK/corpus" -- \
   -runs="$RUNS" -seed="$SEED" -len_control=0 -max_len=4096 -artifact_prefix="$WORK/artifacts/" >"$LOG" 2>&1
RC=$?
STATS="$(grep -E "DONE|Done" "$LOG" | tail -2 | tr '\n' ' ' | tr -s ' ' | cut -c1-300)"
CRASH="$(ls "$WORK/artifacts" 2>/dev/null | head -1)"
if [ -n "$CRASH" ]; then
  mkdir -p "$HERE/replays"
  DEST="$HERE/replays/$ID-e8-$TARGET-$CRASH"
  cp "$WORK/artifacts/$CRASH" "$DEST"
  grep -E "panicked|assertion|ERROR" "$LOG" | head -5 >&2
  note "status=crash" "target=$TARGET" "runs=$RUNS" "seed=$SEED" "artifact=$DEST"
  echo "VIOLATION property=$ID replay=$DEST"
  exit 1
fi
if [ $RC -ne 0 ]; then
  echo "E8: libFuzzer exited with $RC without an artifact (inconclusive)" >&2
  note "status=inconclusive" "target=$TARGET" "rc=$RC"
  exit 0
fi
note "status=clean" "target=$TARGET" "runs=$RUNS" "seed=$SEED" "libfuzzer=$STATS" "corpus_seed_files=$(ls "$HERE/fuzz/corpus/$TARGET" 2>/dev/null | wc -l)"
echo "E8 $TARGET: $STATS"
exit 0
