#!/usr/bin/env bash
# tools/run_tier.sh <tier> <ID>...   — run several checks in sequence, print one summary line each.
TIER="$1"; shift
# under `vp run --with-repo` build against the repository snapshot (immune to experiments in /repo)
[ -n "${VP_RUN_REPO:-}" ] && export VERIF_REPO="$VP_RUN_REPO"
for id in "$@"; do
  s=$(date +%s)
  out=$(./check "$id" "$TIER" 2>&1 | grep -E "^(OK|VIOLATION|KNOWN-FINDING|infra)" | head -5 | tr '\n' ' ')
  rc=${PIPESTATUS[0]}
  echo "[$(date +%H:%M:%S)] $id $TIER $(( $(date +%s) - s ))s :: $out"
done
