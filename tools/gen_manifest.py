#!/usr/bin/env python3
"""Regenerates /verif/MANIFEST.json from the table below (single source of truth)."""
import json, subprocess, os
HERE = os.path.dirname(os.path.dirname(os.path.abspath(__file__)))

E1_NOTE = ("Trusted base: plonky2's Poseidon2 permutation (shared by the reference hashes), plonky2's gate evaluation code "
           "(cross-checked every run against the real prover+verifier on positive controls and on a sample of gate-level Unsat verdicts). "
           "A search: absence of a satisfying witness among the explored assignments is evidence, not proof, of unsatisfiability.")

CHECKS = {
 # id: (engine, category, text, design_ref, level_note, technique)
 "C01": ("E1-leaf", "exploration",
         "Generated single-clause attacks (range of each scalar, fee bound, fee inequality by delta, on real and dummy statements) on honest leaf statements, "
         "evaluated on the real leaf circuit with adversarial free inputs and single-generator hint overrides; every Sat candidate is confirmed by the real prover and verifier before it is reported.",
         "DESIGN.md §4 C01", E1_NOTE, "metamorphic attack generation + witness fuzzing (generated-input search with gate-constraint oracle)"),
 "C02": ("E1-leaf", "exploration",
         "Generated nullifier/secret/count/recipient split attacks and nullifier-formula variants against honest statements built from reference H(H(salt||..)); Unsat expected, Sat confirmed by real prove+verify.",
         "DESIGN.md §4 C02", E1_NOTE, "metamorphic attack generation + witness fuzzing"),
 "C03": ("E1-leaf", "exploration",
         "Generated header/tree-root/position/sibling/depth/preimage-order attacks over reference-built 4-ary paths of every depth 0..16, including the forged-membership witness for out-of-range positions.",
         "DESIGN.md §4 C03", E1_NOTE, "metamorphic attack generation + witness fuzzing"),
 "C04": ("E1-leaf", "exploration",
         "All sentinel combinations x garbage in exactly one binding, one-limb block hashes, direct assignment of the dummy flag, equality-hint overrides; full sentinel with garbage as accepting control.",
         "DESIGN.md §4 C04", E1_NOTE, "metamorphic attack generation + witness fuzzing"),
}

NOT_YET = "not claimed yet: check not implemented in this round (design in DESIGN.md §4); will be claimed once its check is built and validated"

def main():
    props = [json.loads(l) for l in open(os.path.join(HERE, "properties.jsonl"))]
    ids = [p["id"] for p in props]
    checks = []
    for pid in ids:
        if pid not in CHECKS:
            continue
        engine, cat, text, ref, note, tech = CHECKS[pid]
        checks.append({
            "property_id": pid,
            "quick_cmd": f"./check {pid} quick",
            "thorough_cmd": f"./check {pid} thorough",
            "evidence_file": f"/verif/evidence/{pid}.json",
            "replay_cmd_template": f"./check {pid} --replay {{path}}",
            "engine": engine,
            "level_claimed": {"category": cat, "text": text, "design_ref": ref},
            "level_note": note,
            "technique": tech,
        })
    na_reasons = {}
    extra = os.path.join(HERE, "tools", "not_applicable.json")
    if os.path.exists(extra):
        na_reasons = json.load(open(extra))
    na = [{"property_id": pid, "reason": na_reasons.get(pid, NOT_YET)} for pid in ids if pid not in CHECKS]
    try:
        commits = subprocess.check_output(["git", "-C", "/repo", "log", "--format=%H %s", "--grep=^verif hook"], text=True).strip().splitlines()
    except Exception:
        commits = []
    man = {
        "version": 1,
        "setup_cmd": "cd /verif/harness && CARGO_NET_OFFLINE=true RUSTFLAGS='--cfg quantus_network_qp_zk_circuits_verif' cargo build --release --offline --target-dir /verif/target",
        "hooks": {
            "guard": "--cfg quantus_network_qp_zk_circuits_verif",
            "enable": "RUSTFLAGS='--cfg quantus_network_qp_zk_circuits_verif' (set by ./check; the harness crate depends on the /repo crates by path, so every check rebuilds the touched crates from the current working tree)",
            "baseline_off_cmd": "cd /repo && cargo test --workspace --no-fail-fast --offline",
            "source_commits": [c.split()[0] for c in commits],
            "add_only": True,
        },
        "engines": [
            {"name": "E1-leaf", "path": "harness/src/engine/e1.rs, harness/src/engine/hints.rs, harness/src/leaf.rs, harness/src/props/leafdrv.rs",
             "serves_properties": [p for p in ["C01", "C02", "C03", "C04"] if p in CHECKS],
             "kind_free_text": "witness fuzzer: generator loop with replaced hint generators + native gate-constraint evaluation of the real leaf circuit, real prover/verifier as ground truth"},
        ],
        "checks": checks,
        "not_applicable": na,
        "notes": "Technique family: property-based testing and fuzzing. ./check <ID> quick|thorough; VERIF_SEED seeds every generator. Exit 2 = infrastructure problem, never a verdict.",
    }
    json.dump(man, open(os.path.join(HERE, "MANIFEST.json"), "w"), indent=1)
    print("wrote MANIFEST.json with", len(checks), "checks,", len(na), "not_applicable")

main()
