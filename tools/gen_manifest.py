#!/usr/bin/env python3
"""Regenerates /verif/MANIFEST.json from the table below (single source of truth)."""
import json, subprocess, os
HERE = os.path.dirname(os.path.dirname(os.path.abspath(__file__)))

E1_NOTE = ("Trusted base: plonky2's Poseidon2 permutation (shared by the reference hashes), plonky2's gate evaluation code "
           "(cross-checked every run against the real prover+verifier on positive controls and on a sample of gate-level Unsat verdicts). "
           "A search: absence of a satisfying witness among the explored assignments is evidence, not proof, of unsatisfiability.")

E2_NOTE = ("Trusted base: the reference predicate/decoder written in the harness from the property statement; plonky2's Poseidon2 where hashes are compared. "
           "Generated-input search: agreement on the explored inputs is evidence, not proof, for all inputs.")

POOL_NOTE = "Trusted base: the ~150-line pool model written from the statements; the pass-through child circuit stands in for the canonical private-batch circuit (the pool accepts any verifier of the right public-input length); the harness-owned virtual CLOCK_MONOTONIC (self-tested every run). Budget-window semantics as documented in pool.rs (fixed window, restarted by the first budget-stage push at least one window after its start). Histories are sampled, not enumerated."

CHECKS = {
 # id: (engine, category, text, design_ref, level_note, technique)
 "C01": ("E1-leaf", "exploration",
         "Generated single-clause attacks (range of each scalar, fee bound, fee inequality by delta, on real and dummy statements) on honest leaf statements, "
         "evaluated on the real leaf circuit with adversarial free inputs and single-generator hint overrides; every Sat candidate is confirmed by the real prover and verifier before it is reported.",
         "DESIGN.md §4 C01", E1_NOTE, "metamorphic attack generation + witness fuzzing (generated-input search with gate-constraint oracle)"),
 "C02": ("E1-leaf", "exploration",
         "Generated nullifier/secret/count/recipient split attacks and nullifier-formula variants against honest statements built from reference H(H(salt||..)); Unsat expected, Sat confirmed by real prove+verify.",
         "DESIGN.md §4 C02", E1_NOTE, "metamorphic attack generation + witness fuzzing"),
 "C03": ("E1-leaf", "exploration",
         "Generated header/tree-root/position/sibling/depth/preimage-order attacks over reference-built 4-ary paths of every depth 0..16, including the forged-membership witness for out-of-range positions.",
         "DESIGN.md §4 C03", E1_NOTE, "metamorphic attack generation + witness fuzzing"),
 "C04": ("E1-leaf", "exploration",
         "All sentinel combinations x garbage in exactly one binding, one-limb block hashes, direct assignment of the dummy flag, equality-hint overrides; full sentinel with garbage as accepting control.",
         "DESIGN.md §4 C04", E1_NOTE, "metamorphic attack generation + witness fuzzing"),

 "C06": ("E1-wrapper", "exploration",
         "Wrapper-only private-batch circuit (the repo's own constraint builder over free child public inputs) evaluated on generated vectors of leaf statements for N in 1..8 (16/32 in thorough), N=1 exhaustive and N=2 gridded over a reduced slot domain; on every accepted case all 21N+8 public inputs are compared with an independent ~60-line reference aggregate.",
         "DESIGN.md §4 C06", E1_NOTE + " The wrapper-only circuit is the repo's build_private_batch_constraints without the recursive verifier gadgets; C14/C36 tie it to the full recursive circuit.", "model-based differential testing on generated inputs (reference aggregate vs circuit evaluation)"),
 "C07": ("E1-wrapper", "exploration",
         "Both directions of the iff on every generated vector: circuit Sat <=> reference predicate (asset, block, fee, distinct real nullifiers, grouped sums < 2^32); metamorphic invariance of the verdict under slot permutation and dummy-content rewriting; disagreements confirmed by the real prover/verifier before being reported.",
         "DESIGN.md §4 C07", E1_NOTE, "differential (reference predicate) + metamorphic testing on generated inputs"),
 "C08": ("E1-wrapper", "exploration",
         "Integer conservation computed from the child public inputs only (independent of the C06 model): sum of output slots == sum of real (o1+o2); each non-zero slot == per-account total over real slots; dummies with arbitrary amounts contribute nothing.",
         "DESIGN.md §4 C08", E1_NOTE, "invariant checking on generated inputs"),
 "C09": ("E1-wrapper", "exploration",
         "Metamorphic relations on accepted batches: permuting (slot, preimage) pairs keeps header and nullifier region and reorders non-zero exit groups to first-occurrence order; hidden slots all-zero; rewriting dummy contents changes nothing.",
         "DESIGN.md §4 C09", E1_NOTE, "metamorphic testing on generated inputs"),
 "C10": ("E1-wrapper", "exploration",
         "Single-generator hint sweeps (every equality flag/inverse, canonical 32-bit split incl. the p-alias, bit decompositions, comparator bits) on accepted and rejected batches of the private and public wrapper circuits and on the less-than and sort gadget circuits: accepted => every satisfying alternative has identical public inputs; rejected => no alternative satisfies; Sat candidates confirmed by the real prover.",
         "DESIGN.md §4 C10", E1_NOTE + " Coordinated lies across >= 3 independent hint generators are out of reach.", "witness fuzzing (hint-override sweeps) with gate-constraint oracle"),
 "C12": ("E1-wrapper", "exploration",
         "Wrapper-only public-batch circuit on generated vectors of inner statements for (M,N) up to (8,8) (larger in thorough), (2,1)/(2,2) gridded: accepted => public inputs equal the reference forwarding (address, first-real header, 2NM, per-inner slots then nullifiers, dummy inners zeroed).",
         "DESIGN.md §4 C12", E1_NOTE, "model-based differential testing on generated inputs"),
 "C13": ("E1-wrapper", "exploration",
         "Sat <=> real inners share (block hash, asset, fee), both directions, confirmed by the real prover; verdict invariant under rewriting slot contents, nullifiers, block numbers and every field of dummy inners.",
         "DESIGN.md §4 C13", E1_NOTE, "differential + metamorphic testing on generated inputs"),
 "C30": ("E1-gadget", "exploration",
         "One circuit per width 1..64 holding many is_const_less_than instances: widths 1..8 exhaustive over constants x elements, boundary/random values above, width 64 with constants >= p and aliasable elements; enforce_target_less_than_const over (n_log, bound) pairs; hint sweeps on all wide cases. Sat <=> element < 2^w and every Sat witness has the integer-correct outputs.",
         "DESIGN.md §4 C30", E1_NOTE, "exhaustive small-domain + generated-input testing with integer oracle; witness fuzzing"),
 "C31": ("E1-gadget", "exploration",
         "sort_digests4 circuits for lengths 1..16 (..64 thorough): honest output == input sorted by [u64;4]; small domains exhaustive for lengths 2,3; hint sweeps (p-alias halves, comparator bits, equality flags) must not change the output.",
         "DESIGN.md §4 C31", E1_NOTE, "generated-input testing with reference sort; witness fuzzing"),
 "C36": ("E1-wrapper", "exploration",
         "Chains: compatible real leaf statements split into M inner batches of capacity N, each through the private wrapper circuit, outputs fed verbatim into the public wrapper circuit; conservation of value per account and exact nullifier multiset computed from the leaf statements only; padding inners contribute zeros.",
         "DESIGN.md §4 C36", E1_NOTE, "end-to-end invariant checking on generated inputs (two chained circuit evaluations)"),

 "C24": ("E2-native", "exploration",
         "Reference writer + reference well-formedness predicate/decoder for the leaf (21), private-batch (8+21N, every N in 1..64) and public-batch (12+14MN) layouts; every parser entry point (u64, field-element, verifier::parse_*) compared on valid structures, single-field corruptions at first/last/middle positions, boundary lengths, arbitrary vectors and out-of-range declared counts: no panic, Ok <=> predicate, Ok(v) == reference decode, u64 and felt private-batch parsers agree.",
         "DESIGN.md §4 C24", E2_NOTE, "differential testing against a reference predicate/decoder on generated and mutated inputs"),
 "C25": ("E2-native", "exploration",
         "Round trip, pairwise injectivity on near-colliding clusters, the 1 MiB cap at 2^20+-1, decode-accepts-only-images on corrupted felt vectors, digest acceptance <=> all limbs < p at BytesDigest/Secret entry points, limb decoding <=> limbs < 2^32, quantisation boundary, each against a reference written from the statement.",
         "DESIGN.md §4 C25", E2_NOTE, "round-trip / injectivity / reference-predicate testing on generated inputs"),
 "C26": ("E2-native", "exploration",
         "hash_bytes_compact (through a cfg-gated re-export) Ok <=> len<=2^20, 8|len, limbs<p on every length 0..264 and at the cap; near-miss pairs (x vs x||0^8, v vs v+p, swapped limbs, one bit) must have distinct field sequences and digests; hash_node / hash_node_presorted Err-not-panic <=> non-canonical child, order independence over all 24 permutations, presorted equality.",
         "DESIGN.md §4 C26", E2_NOTE, "reference-predicate and metamorphic testing on generated inputs"),
 "C27": ("E2-native", "exploration",
         "verify()/verify_with_positions() vs a reference predicate with its own fold (plonky2 Poseidon2 over the position-inserted 16 limbs) on reference-built valid paths of every depth 0..18 and single corruptions; from_unsorted accept/shape/rank/verify checks; and the circuit clause: the real leaf circuit (E1) is satisfiable for a real statement's tree path iff native verify() accepts it.",
         "DESIGN.md §4 C27", E2_NOTE + " Circuit clause shares E1's trusted base.", "differential testing: native verifier vs reference fold vs circuit evaluation"),

 "C28": ("E2-native", "exploration",
         "validate_circuit_config enumerated over the full 1 749 600-config product of per-knob value sets (each threshold with both neighbours) against the reference predicate; the six leaf/private/public circuit and prover constructors on failing configs (per violated clause) must return Err without panic and without build-sized allocation; the profiling CLI's own AggConfigArgs (compiled in from memprof/src/config.rs, parsed by clap) on generated argv: validate()==Ok => the built config passes the structural check.",
         "DESIGN.md §4 C28", E2_NOTE + " The grid is exhaustive over the stated value sets, not over all usize values.", "exhaustive grid enumeration + generated CLI argument vectors against a reference predicate"),
 "C29": ("E2-native", "exploration",
         "A table of 33 public entry points x 14 counts (0, 1, 2, 63..66, 1000, 2^16, 2^32, 2^63, usize::MAX, ...): each invalid (entry, count) is probed in a child process whose allocator counts bytes and kills the child above 192 MiB; the call must return Err, not panic/abort, allocate < 64 MiB and create no file. Plus CircuitBinsConfig save/load over all 64x65 valid pairs, the legacy key, and generated config.json documents against a reference reading.",
         "DESIGN.md §4 C29", E2_NOTE + " 'Before allocating or building' is observed as bytes allocated by the probed call (deterministic), not as wall time; a child exceeding the 120 s watchdog is inconclusive (exit 2).", "table-driven boundary testing in instrumented child processes + generated config documents"),
 "C35": ("E2-native", "exploration",
         "Grammar-based documents rendered from a model (field order, unknown nested fields, escapes, u64 edges) with every cap probed at +-1 (state_root plain / \\u-escaped / multi-byte, node count, node length, total length spread over k nodes, index count, whitespace padding to 8 MiB +-1) plus mutations (truncation, byte edits, duplicate and wrong-typed fields): never panics, over-cap or oversized => Err, Ok(d) => validate() Ok and d equals the model.",
         "DESIGN.md §4 C35", E2_NOTE, "grammar-based generation with a model-derived oracle"),

 "C19": ("E3-pool", "exploration",
         "Model-based stateful testing: generated histories (pushes of pre-proved valid/dummy/tampered/wrong-length proofs, evictions, snapshots, removals, clock advances around the window boundary) against the real ProofPool and a model; per push the result, the returned key and the observed number of verifier calls must match the documented rule order, and a rejected push must leave the dumped pool state unchanged.",
         "DESIGN.md §4 C19", POOL_NOTE, "stateful model-based testing (operation histories, delta-debugged counterexamples)"),
 "C20": ("E3-pool", "exploration",
         "After every operation of the same generated histories: dumped nullifier index == exactly the pooled nullifiers -> their bucket, no shared nullifier, no empty bucket, key of bucket == key of each proof, counts within limits, bucket_stats (counts, saturating volume, oldest age, last snapshot age) exactly equal to the model under frozen virtual time.",
         "DESIGN.md §4 C20", POOL_NOTE, "invariant checking over generated operation histories"),
 "C21": ("E3-pool", "exploration",
         "Custody: a proof disappears only through a settlement set containing one of its nullifiers, age > cutoff, or removal of its bucket (returned in admission order); reported counts exact; snapshots return the oldest min(count, batch) in admission order, change only the snapshot mark and pass the public-batch preflight.",
         "DESIGN.md §4 C21", POOL_NOTE, "stateful model-based testing"),
 "C22": ("E3-pool", "exploration",
         "Per model window the observed verifier calls never exceed the budget (failed verifications count), a push arriving with the window exhausted performs zero verifications, a push inside the budget is never refused for budget; histories straddle the window boundary (Advance in {W-1, W, W+1, 2W}).",
         "DESIGN.md §4 C22", POOL_NOTE, "stateful model-based testing under a virtual clock"),

 "C23": ("E5-publish", "fault_enumeration",
         "The whole schedule space of the publish routine is enumerated: initial state (no output / output directory / output is a file) x an action (ok, fail, crash-before, crash-after) for each of its up to three rename calls x a process death after k unlinkat calls for every k a returning schedule performs, each in a child process (real abort); plus failure/abort injected between the stages of the real generate_all_circuit_binaries. Afterwards the directory tree must satisfy: output absent, byte-identical previous set or byte-identical new set; previous gone => new live or both intact elsewhere; Ok <=> new live; failed generation => output untouched, no staging directory.",
         "DESIGN.md §4 C23", "Faults at rename/unlink granularity on one local filesystem (a rename either happens or fails); power-loss reordering out of scope. Injection through the repo's own injectable-rename entry (cfg-gated re-export) and by defining unlinkat in the harness binary.", "exhaustive fault/crash schedule enumeration in child processes with a state predicate oracle"),
}

NOT_YET = "not claimed yet: check not implemented in this round (design in DESIGN.md §4); will be claimed once its check is built and validated"

def main():
    props = [json.loads(l) for l in open(os.path.join(HERE, "properties.jsonl"))]
    ids = [p["id"] for p in props]
    checks = []
    for pid in ids:
        if pid not in CHECKS:
            continue
        engine, cat, text, ref, note, tech = CHECKS[pid]
        checks.append({
            "property_id": pid,
            "quick_cmd": f"./check {pid} quick",
            "thorough_cmd": f"./check {pid} thorough",
            "evidence_file": f"/verif/evidence/{pid}.json",
            "replay_cmd_template": f"./check {pid} --replay {{path}}",
            "engine": engine,
            "level_claimed": {"category": cat, "text": text, "design_ref": ref},
            "level_note": note,
            "technique": tech,
        })
    na_reasons = {}
    extra = os.path.join(HERE, "tools", "not_applicable.json")
    if os.path.exists(extra):
        na_reasons = json.load(open(extra))
    na = [{"property_id": pid, "reason": na_reasons.get(pid, NOT_YET)} for pid in ids if pid not in CHECKS]
    try:
        commits = subprocess.check_output(["git", "-C", "/repo", "log", "--format=%H %s", "--grep=^verif hook"], text=True).strip().splitlines()
    except Exception:
        commits = []
    man = {
        "version": 1,
        "setup_cmd": "cd /verif/harness && CARGO_NET_OFFLINE=true RUSTFLAGS='--cfg quantus_network_qp_zk_circuits_verif' cargo build --release --offline --target-dir /verif/target",
        "hooks": {
            "guard": "--cfg quantus_network_qp_zk_circuits_verif",
            "enable": "RUSTFLAGS='--cfg quantus_network_qp_zk_circuits_verif' (set by ./check; the harness crate depends on the /repo crates by path, so every check rebuilds the touched crates from the current working tree)",
            "baseline_off_cmd": "cd /repo && cargo test --workspace --no-fail-fast --offline",
            "source_commits": [c.split()[0] for c in commits],
            "add_only": True,
        },
        "engines": [
            {"name": "E1-wrapper", "path": "harness/src/engine/e1.rs, harness/src/pbatch.rs, harness/src/pubbatch.rs, harness/src/props/privprops.rs, harness/src/props/pubprops.rs",
             "serves_properties": [p for p in ["C06", "C07", "C08", "C09", "C10", "C12", "C13", "C36"] if p in CHECKS],
             "kind_free_text": "wrapper-only private/public batch circuits built by the repo's own constraint builders (cfg-gated re-exports) over free child public inputs; reference models; hint sweeps"},
            {"name": "E1-gadget", "path": "harness/src/props/gadgetprops.rs",
             "serves_properties": [p for p in ["C30", "C31", "C10"] if p in CHECKS],
             "kind_free_text": "single-gadget circuits for common::gadgets evaluated through E1"},
            {"name": "E2-native", "path": "harness/src/props/parsers.rs, harness/src/props/encodings.rs, harness/src/props/config.rs, harness/src/props/jsonprops.rs, harness/src/util/alloc.rs",
             "serves_properties": [p for p in ["C24", "C25", "C26", "C27", "C28", "C29", "C35"] if p in CHECKS],
             "kind_free_text": "native API properties: deterministic generators (VERIF_SEED) + reference predicates/decoders, catch_unwind around every call, element-wise shrinking of failing vectors"},
            {"name": "E3-pool", "path": "harness/src/props/poolprops.rs, harness/src/util/vclock.rs",
             "serves_properties": [p for p in ["C19", "C20", "C21", "C22"] if p in CHECKS],
             "kind_free_text": "pool state machine: Vec<Op> histories interpreted against ProofPool and a model, virtual clock by clock_gettime interposition, verifier-call counter and state dump through cfg-gated hooks, ddmin shrinking"},
            {"name": "E5-publish", "path": "harness/src/props/publish.rs",
             "serves_properties": [p for p in ["C23"] if p in CHECKS],
             "kind_free_text": "filesystem fault/crash enumerator: child processes, injectable rename, unlinkat interposition, stage-fault hook"},
            {"name": "E1-leaf", "path": "harness/src/engine/e1.rs, harness/src/engine/hints.rs, harness/src/leaf.rs, harness/src/props/leafdrv.rs",
             "serves_properties": [p for p in ["C01", "C02", "C03", "C04"] if p in CHECKS],
             "kind_free_text": "witness fuzzer: generator loop with replaced hint generators + native gate-constraint evaluation of the real leaf circuit, real prover/verifier as ground truth"},
        ],
        "checks": checks,
        "not_applicable": na,
        "notes": "Technique family: property-based testing and fuzzing. ./check <ID> quick|thorough; VERIF_SEED seeds every generator. Exit 2 = infrastructure problem, never a verdict.",
    }
    json.dump(man, open(os.path.join(HERE, "MANIFEST.json"), "w"), indent=1)
    print("wrote MANIFEST.json with", len(checks), "checks,", len(na), "not_applicable")

main()
