#!/usr/bin/env bash
# tools/mutate.sh <file-under-/repo> <python-expr old> <python-expr new> <check id> [tier]
# One-off sensitivity experiment: textual replacement in /repo (must match exactly once), run a check, revert.
set -u
F="/repo/$1"; OLD="$2"; NEW="$3"; ID="$4"; TIER="${5:-quick}"
if [ -n "$(git -C /repo status --porcelain)" ]; then echo "/repo not clean"; exit 2; fi
python3 - "$F" "$OLD" "$NEW" <<'PY' || exit 2
import sys
f,old,new=sys.argv[1:4]
s=open(f).read()
if s.count(old)!=1:
    print("pattern occurs", s.count(old), "times"); sys.exit(1)
open(f,'w').write(s.replace(old,new))
PY
trap 'git -C /repo checkout -- .' EXIT
cd /verif && ./check "$ID" "$TIER" 2>&1 | tail -n 4
echo "mutate -> exit ${PIPESTATUS[0]}"
