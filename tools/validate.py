#!/usr/bin/env python3-vt
import json, glob, sys
import jsonschema
jsonschema.validate(json.load(open('/verif/MANIFEST.json')), json.load(open('/root/.vp/MANIFEST.schema.json')))
print('manifest ok')
es = json.load(open('/root/.vp/EVIDENCE.schema.json'))
bad = 0
for f in sorted(glob.glob('/verif/evidence/*.json')):
    try:
        jsonschema.validate(json.load(open(f)), es)
    except Exception as e:
        bad += 1
        print('BAD', f, str(e)[:200])
print('evidence files checked, bad =', bad)
sys.exit(1 if bad else 0)
