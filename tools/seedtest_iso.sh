#!/usr/bin/env bash
# tools/seedtest_iso.sh <seed-dir-name> <check id> [tier] — like seedtest.sh, but against a scratch worktree of
# /repo and a scratch copy of /verif, so that /repo and /verif/evidence stay untouched (usable while the
# registered checks are being run for evidence). Not usable for C28 (its harness module includes a /repo path).
set -u
NAME="$1"; ID="$2"; TIER="${3:-quick}"
P="/verif/seeded/$NAME/patch.diff"
[ -f "$P" ] || { echo "no patch $P"; exit 2; }
SR=/tmp/seedrepo; SV=/tmp/verif-seed
[ -d "$SR" ] || git -C /repo worktree add --detach "$SR" HEAD -q
git -C "$SR" checkout -q -- . ; git -C "$SR" clean -fdq
git -C "$SR" apply "$P" || { echo "patch does not apply"; exit 2; }
mkdir -p "$SV"; rsync -a --delete --exclude target --exclude .git --exclude replays /verif/ "$SV/"
( cd "$SV" && VERIF_REPO="$SR" VERIF_TARGET=/tmp/seed-target ./check "$ID" "$TIER" 2>&1 | tail -n 5 )
RC=${PIPESTATUS[0]}
git -C "$SR" checkout -q -- . ; git -C "$SR" clean -fdq
echo "seedtest_iso $NAME $ID $TIER done"
